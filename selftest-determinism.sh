#!/bin/sh
# Determinism self-test (development aid, not a registered check): every scenario must produce the identical complete
# event log and outcome when run again in another process, with OS-random hash seeds, and in a different position of a
# batch. Prints one line per comparison; exit 0 iff all agree.
cd "$(dirname "$0")" || exit 2
(cd sim && cargo build --release --offline >/dev/null 2>&1) || exit 2
S=./sim/target/release/sim
N=${1:-3000}
fail=0
cmp_run() { # engine config prop
  a=$($S digest $1 $2 $3 0 $N | md5sum); b=$($S digest $1 $2 $3 0 $N | md5sum)
  # second half first: position in the batch / allocator state must not matter
  c1=$($S digest $1 $2 $3 $((N/2)) $((N/2))); c2=$($S digest $1 $2 $3 0 $N | tail -n $((N/2)))
  r=$($S digest $1 $2 $3 0 $N random-hash | md5sum)
  ok=yes; [ "$a" = "$b" ] || ok=no; [ "$c1" = "$c2" ] || ok=no
  if [ "$1" = e1 ] || [ "$1" = e2 ]; then [ "$a" = "$r" ] || ok=no; fi
  echo "$1 $2 $3 runs=$N two-processes+offset+other-hash-seeds agree=$ok"
  [ $ok = yes ] || fail=1
}
cmp_run e1 td C01; cmp_run e1 bu-big C04; cmp_run e1 bu-mixed C03; cmp_run e1 td-crash C19; cmp_run e1 td-checkerr C18
cmp_run e1 x-any-td C19; cmp_run e1 v-td C20; cmp_run e1 m-td C08; cmp_run e1 id-td C15; cmp_run e1 td-backends C01; cmp_run e1 td-files C01
cmp_run e1 bu-insession C03; cmp_run e1 bu-insession-crash C19; cmp_run e1 td-crash-samesession C19; cmp_run e1 x-any-crash-samesession C19; cmp_run e1 bu-crash-samesession C19
cmp_run e1 td-zst C09; cmp_run e1 bu-big-xl C04; cmp_run e1 v-bu-insession C20
cmp_run e2 short C10; cmp_run e2 long C11; cmp_run e2 wide C10; cmp_run e3 fs C13; cmp_run e4 mix C14
for w in 1 5; do
  x=$(VERIF_WORKERS=$w $S check C04 quick | grep -E "^summary|^VIOLATION" | sed 's/wall_s=[0-9.]*//'); y=$(VERIF_WORKERS=16 $S check C04 quick | grep -E "^summary|^VIOLATION" | sed 's/wall_s=[0-9.]*//')
  [ "$x" = "$y" ] && echo "C04 quick workers=$w vs 16 identical summary" || { echo "C04 quick workers=$w vs 16 DIFFER"; fail=1; }
done
exit $fail
