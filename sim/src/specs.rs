//! Per-property check specifications: which engine, which configurations, how many runs per tier.
use crate::common::{run_check, CheckSpec, Config};
use crate::e2_dag::DagEngine;
use crate::e1::BuildEngine;
use crate::e4_state::StateEngine;

pub fn check(prop: &str, tier: &str) -> i32 {
  match prop {
    "C10" => run_check(&DagEngine, &CheckSpec {
      prop: "C10",
      rule: "seeded operation histories (add_node/add_edge/remove_edge/remove_outgoing_edges_of_node/remove_node, <= 12 live nodes, <= 60 (config long: 120) ops, biased to back-edges, cycle-closing edges, re-insertions and dead handles) over DAG<u32,u64> with a seeded hasher; after every op: rank bijection onto 1..n, ascending edges, exact add_edge verdict vs DFS reference, rollback of rejected insertions. Non-trivial = history with >= 1 order-changing insertion (rank(dst) < rank(src)) and >= 1 removal; distinct by operation-sequence fingerprint.",
      assumptions: vec!["reference graph (ordered adjacency lists + DFS) is correct", "hash order is controlled through the guarded seeded-hasher seam"],
      configs: vec![Config { name: "short", quick: 60_000, thorough: 1_500_000 }, Config { name: "long", quick: 20_000, thorough: 800_000 }],
    }, tier),
    "C11" => run_check(&DagEngine, &CheckSpec {
      prop: "C11",
      rule: "same histories as C10; after every op every public query for every ordered pair of live and dead handles is compared with the reference graph (first-insertion order and data, symmetric adjacency, descendants exact/once/ascending, transitive reachability, topo_cmp, removal results). Non-trivial = history with >= 1 order-changing insertion and >= 1 removal; distinct by operation-sequence fingerprint.",
      assumptions: vec!["reference graph (ordered adjacency lists + DFS) is correct", "hash order is controlled through the guarded seeded-hasher seam"],
      configs: vec![Config { name: "short", quick: 60_000, thorough: 1_500_000 }, Config { name: "long", quick: 20_000, thorough: 800_000 }],
    }, tier),
    "C01" => run_check(&BuildEngine, &CheckSpec {
      prop: "C01",
      rule: "class-W programs x initial worlds x histories of external changes and top-down sessions; non-trivial = some session both reused and re-executed tasks",
      assumptions: vec!["from-scratch model (Clean) is correct"],
      configs: vec![Config { name: "td", quick: 100_000, thorough: 4_000_000 }, Config { name: "td-big", quick: 30_000, thorough: 1_000_000 }, Config { name: "td-checkerr", quick: 40_000, thorough: 1_000_000 }, Config { name: "td-crash", quick: 40_000, thorough: 1_000_000 }],
    }, tier),
    "C02" => run_check(&BuildEngine, &CheckSpec {
      prop: "C02",
      rule: "as C01; plus exact-checker programs for the minimality clause",
      assumptions: vec!["from-scratch model (Clean) is correct"],
      configs: vec![Config { name: "td", quick: 60_000, thorough: 2_000_000 }, Config { name: "td-exact", quick: 60_000, thorough: 2_000_000 }, Config { name: "td-crash", quick: 50_000, thorough: 1_500_000 }, Config { name: "td-checkerr", quick: 30_000, thorough: 1_000_000 }],
    }, tier),
    "C03" => run_check(&BuildEngine, &CheckSpec {
      prop: "C03",
      rule: "bottom-up mixes",
      assumptions: vec!["from-scratch model (Clean) is correct"],
      configs: vec![Config { name: "bu-pure", quick: 60_000, thorough: 2_000_000 }, Config { name: "bu-allroots", quick: 60_000, thorough: 2_000_000 }, Config { name: "bu-big", quick: 80_000, thorough: 2_500_000 }],
    }, tier),
    "C04" => run_check(&BuildEngine, &CheckSpec {
      prop: "C04",
      rule: "bottom-up mixes",
      assumptions: vec!["from-scratch model (Clean) is correct"],
      configs: vec![Config { name: "bu-big", quick: 100_000, thorough: 3_000_000 }, Config { name: "bu-pure", quick: 50_000, thorough: 2_000_000 }, Config { name: "bu-allroots", quick: 50_000, thorough: 2_000_000 }, Config { name: "bu-big-allroots", quick: 50_000, thorough: 1_500_000 }],
    }, tier),
    "C17" => run_check(&BuildEngine, &CheckSpec {
      prop: "C17",
      rule: "tracker stream",
      assumptions: vec!["task-side and checker-side logs are the ground truth"],
      configs: vec![Config { name: "td", quick: 50_000, thorough: 2_000_000 }, Config { name: "bu-pure", quick: 50_000, thorough: 2_000_000 }, Config { name: "td-checkerr", quick: 30_000, thorough: 1_000_000 }, Config { name: "bu-checkerr", quick: 30_000, thorough: 1_000_000 }, Config { name: "bu-big", quick: 30_000, thorough: 1_000_000 }, Config { name: "x-any-td", quick: 20_000, thorough: 500_000 }],
    }, tier),
    "C16" => run_check(&BuildEngine, &CheckSpec {
      prop: "C16",
      rule: "replays",
      assumptions: vec![],
      configs: vec![Config { name: "td-replay", quick: 20_000, thorough: 700_000 }, Config { name: "bu-replay", quick: 20_000, thorough: 700_000 }, Config { name: "bu-mixed-replay", quick: 10_000, thorough: 300_000 }, Config { name: "bu-big-replay", quick: 60_000, thorough: 1_500_000 }],
    }, tier),
    "C19" => run_check(&BuildEngine, &CheckSpec {
      prop: "C19",
      rule: "crash faults",
      assumptions: vec![],
      configs: vec![Config { name: "td-crash", quick: 80_000, thorough: 3_000_000 }, Config { name: "bu-crash", quick: 50_000, thorough: 2_000_000 }, Config { name: "x-any-td", quick: 60_000, thorough: 2_000_000 }, Config { name: "x-any-crash", quick: 40_000, thorough: 1_000_000 }, Config { name: "v-td-crash", quick: 40_000, thorough: 1_000_000 }],
    }, tier),
    "C18" => run_check(&BuildEngine, &CheckSpec {
      prop: "C18",
      rule: "check errors",
      assumptions: vec![],
      configs: vec![Config { name: "td-checkerr", quick: 80_000, thorough: 2_500_000 }, Config { name: "bu-checkerr", quick: 80_000, thorough: 2_500_000 }],
    }, tier),
    "C05" => run_check(&BuildEngine, &CheckSpec {
      prop: "C05", rule: "class X hidden", assumptions: vec![],
      configs: vec![Config { name: "x-hidden-td", quick: 80_000, thorough: 2_500_000 }, Config { name: "x-hidden-bu", quick: 60_000, thorough: 2_000_000 }, Config { name: "td", quick: 20_000, thorough: 500_000 }],
    }, tier),
    "C06" => run_check(&BuildEngine, &CheckSpec {
      prop: "C06", rule: "class X overlap", assumptions: vec![],
      configs: vec![Config { name: "x-overlap-td", quick: 80_000, thorough: 2_500_000 }, Config { name: "x-overlap-bu", quick: 60_000, thorough: 2_000_000 }, Config { name: "bu-allroots", quick: 20_000, thorough: 500_000 }, Config { name: "bu-crash", quick: 40_000, thorough: 1_000_000 }, Config { name: "td-crash", quick: 20_000, thorough: 500_000 }],
    }, tier),
    "C07" => run_check(&BuildEngine, &CheckSpec {
      prop: "C07", rule: "class X cycle", assumptions: vec![],
      configs: vec![Config { name: "x-cycle-td", quick: 80_000, thorough: 2_500_000 }, Config { name: "x-cycle-bu", quick: 60_000, thorough: 2_000_000 }],
    }, tier),
    "C08" => run_check(&BuildEngine, &CheckSpec {
      prop: "C08", rule: "store dump vs ledger", assumptions: vec![],
      configs: vec![Config { name: "td", quick: 60_000, thorough: 2_000_000 }, Config { name: "bu-mixed", quick: 60_000, thorough: 2_000_000 }, Config { name: "td-crash", quick: 40_000, thorough: 1_000_000 }, Config { name: "bu-crash", quick: 40_000, thorough: 1_000_000 }, Config { name: "m-td", quick: 20_000, thorough: 500_000 }, Config { name: "m-bu", quick: 20_000, thorough: 500_000 }],
    }, tier),
    "C20" => run_check(&BuildEngine, &CheckSpec {
      prop: "C20", rule: "class W never aborts; class V aborts judged", assumptions: vec![],
      configs: vec![Config { name: "v-td", quick: 80_000, thorough: 2_500_000 }, Config { name: "v-bu", quick: 40_000, thorough: 1_500_000 }, Config { name: "td", quick: 40_000, thorough: 1_000_000 }, Config { name: "bu-mixed", quick: 40_000, thorough: 1_000_000 }, Config { name: "bu-big", quick: 20_000, thorough: 500_000 }, Config { name: "v-bu-big", quick: 60_000, thorough: 1_500_000 }, Config { name: "v-td-crash", quick: 40_000, thorough: 1_000_000 }],
    }, tier),
    "C09" => run_check(&BuildEngine, &CheckSpec {
      prop: "C09", rule: "checker mixes", assumptions: vec![],
      configs: vec![Config { name: "td", quick: 60_000, thorough: 2_000_000 }, Config { name: "bu-allroots", quick: 50_000, thorough: 1_500_000 }, Config { name: "td-big", quick: 30_000, thorough: 1_000_000 }, Config { name: "m-td", quick: 30_000, thorough: 1_000_000 }, Config { name: "bu-big", quick: 30_000, thorough: 1_000_000 }],
    }, tier),
    "C15" => run_check(&BuildEngine, &CheckSpec {
      prop: "C15", rule: "identity", assumptions: vec![],
      configs: vec![Config { name: "id-td", quick: 80_000, thorough: 2_500_000 }, Config { name: "id-bu", quick: 60_000, thorough: 2_000_000 }, Config { name: "td", quick: 30_000, thorough: 1_000_000 }],
    }, tier),
    "C14" => run_check(&StateEngine, &CheckSpec {
      prop: "C14", rule: "state histories", assumptions: vec![],
      configs: vec![Config { name: "mix", quick: 300_000, thorough: 10_000_000 }],
    }, tier),
    _ => { eprintln!("no check for property {prop}"); 2 }
  }
}

pub fn list() {
  for p in ["C10", "C11"] { println!("{p}"); }
}

pub fn configs_of(prop: &str) -> Vec<&'static str> {
  match prop {
    "C01" => vec!["td", "td-big", "td-checkerr", "td-crash"],
    "C02" => vec!["td", "td-exact", "td-crash", "td-checkerr"],
    "C03" => vec!["bu-pure", "bu-allroots", "bu-big"],
    "C04" => vec!["bu-big", "bu-pure", "bu-allroots", "bu-big-allroots"],
    "C10" | "C11" => vec!["short", "long"],
    "C09" => vec!["td", "bu-allroots", "td-big", "m-td", "bu-big"],
    "C15" => vec!["id-td", "id-bu", "td"],
    "C14" => vec!["mix"],
    "C17" => vec!["td", "bu-pure", "td-checkerr", "bu-checkerr", "bu-big", "x-any-td"],
    "C20" => vec!["v-td", "v-bu", "td", "bu-mixed", "bu-big", "v-bu-big", "v-td-crash"],
    "C08" => vec!["td", "bu-mixed", "td-crash", "bu-crash", "m-td", "m-bu"],
    "C05" => vec!["x-hidden-td", "x-hidden-bu", "td"],
    "C06" => vec!["x-overlap-td", "x-overlap-bu", "bu-allroots", "bu-crash", "td-crash"],
    "C07" => vec!["x-cycle-td", "x-cycle-bu"],
    "C18" => vec!["td-checkerr", "bu-checkerr"],
    "C19" => vec!["td-crash", "bu-crash", "x-any-td", "x-any-crash", "v-td-crash"],
    "C16" => vec!["td-replay", "bu-replay", "bu-mixed-replay", "bu-big-replay"],
    _ => vec![],
  }
}
