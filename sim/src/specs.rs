//! Per-property check specifications: engine, configurations, runs per tier, non-triviality rule.
use crate::common::{run_check, CheckSpec, Config};
use crate::e1::BuildEngine;
use crate::e2_dag::DagEngine;
use crate::e3_fs::FsEngine;
use crate::e4_state::StateEngine;

const E1_ASSUME: [&str; 4] = [
  "the from-scratch reference interpreter (Clean) and the ledger derived from task-side / checker-side logs are correct",
  "task programs are interpreted scripts (<= 8 tasks, <= 9 resources, <= 12 history steps); resources are the simulated families RA/RB kept in pie's ResourceState",
  "hash iteration order is controlled through the guarded seeded-hasher seam (seed is part of every scenario)",
  "evidence over sampled scenarios, not proof",
];

fn c(name: &'static str, quick: u64, thorough: u64) -> Config { Config { name, quick, thorough } }

/// (engine, rule, configs)
pub fn spec(prop: &str) -> Option<(&'static str, &'static str, Vec<Config>)> {
  Some(match prop {
    "C01" => ("e1", "class-W programs x initial worlds x histories of external changes (set/create/delete/overwrite of sources and generated resources, touches) and top-down sessions with arbitrary root sequences; configurations: fault-free (td, td-big), with injected checker errors, with injected crashes; oracle: outputs and world of every returning session = from-scratch build of the current state + complete validation of every reused task. Non-trivial = some returning session both reused and re-executed tasks; distinct by scenario fingerprint.",
      vec![c("td", 300_000, 4_000_000), c("td-big", 90_000, 1_000_000), c("td-checkerr", 120_000, 1_000_000), c("td-crash", 120_000, 1_000_000), c("td-backends", 120_000, 1_000_000), c("td-files", 45_000, 400_000)]),
    "C02" => ("e1", "as C01 plus exact-checker-only programs (minimality clause) and crash / checker-error configurations; oracles: at most one execution per task and session, every re-execution follows an inconsistent verdict on a dependency of the task's latest execution (serial-numbered stamps), validation in creation order with early stop, repeat sessions execute nothing, exact-checker programs execute a subset of the from-scratch build. Non-trivial = some session both reused and re-executed tasks.",
      vec![c("td", 180_000, 2_000_000), c("td-exact", 180_000, 2_000_000), c("td-crash", 150_000, 1_500_000), c("td-checkerr", 90_000, 1_000_000), c("td-backends", 90_000, 1_000_000), c("td-files", 30_000, 300_000)]),
    "C03" => ("e1", "histories of change batches reported completely to bottom-up builds: pure bottom-up, mixed with all-roots top-down sessions, many-tasks-few-resources programs with bursts of changes, and mixed with arbitrary top-down sessions in between (bu-mixed: staleness left by a partial top-down session is the recorded finding); oracles: probing all known tasks afterwards executes nothing and returns from-scratch outputs, world = from-scratch, every inconsistent verdict during the build leads to an execution, no cached reuse while something scheduled is reachable. Non-trivial = a bottom-up session both reused and re-executed tasks.",
      vec![c("bu-pure", 180_000, 2_000_000), c("bu-allroots", 180_000, 2_000_000), c("bu-big", 240_000, 2_500_000), c("bu-mixed", 120_000, 1_500_000), c("bu-backends", 90_000, 1_000_000), c("bu-files", 30_000, 300_000), c("bu-checkerr", 120_000, 1_000_000)]),
    "C04" => ("e1", "as C03 (large scheduled sets first); oracles: at most one execution per task and build, every execution of a previously completed task follows an inconsistent / erroneous verdict on one of its own recorded dependencies in that build, no task executes while a scheduled task it transitively requires (recorded edges) still waits. Non-trivial = a bottom-up session both reused and re-executed tasks.",
      vec![c("bu-big", 300_000, 3_000_000), c("bu-pure", 150_000, 2_000_000), c("bu-allroots", 150_000, 2_000_000), c("bu-big-allroots", 150_000, 1_500_000)]),
    "C05" => ("e1", "class-X programs: a well-formed program plus one injected read of a generated resource without requiring its writer, or one injected write of a resource some other task reads, at any task / depth, optionally guarded by a value-dependent condition; top-down and mixed bottom-up histories; online monitors on the ledger: a read / write that returns must not leave a reader without a require path to the writer; write-side aborts through Context::write happen before the resource is opened; after a returning build every fresh reader reaches the writer. Class-W runs as negative control. Non-trivial = a diagnostic abort happened or a session both reused and re-executed.",
      vec![c("x-hidden-td", 240_000, 2_500_000), c("x-hidden-bu", 180_000, 2_000_000), c("td", 60_000, 500_000), c("x-hidden-crash-bu", 600_000, 4_000_000)]),
    "C06" => ("e1", "class-X programs with a second writer of a generated resource (through write and through create_writer + written_to), both orders, split across sessions and build modes; class-W programs with writers re-executed through every route, also after crashes; monitors: a write that returns while another task is the recorded writer is a missed detection; at most one writer per resource after a returning build; aborts through Context::write before modification; a writer's own earlier write is never reported. Non-trivial as C05.",
      vec![c("x-overlap-td", 240_000, 2_500_000), c("x-overlap-bu", 180_000, 2_000_000), c("bu-allroots", 60_000, 500_000), c("bu-crash", 120_000, 1_000_000), c("td-crash", 60_000, 500_000), c("x-overlap-crash-bu", 120_000, 1_000_000)]),
    "C07" => ("e1", "class-X programs with an injected back-require closing a cycle of length 1..n, possibly value-dependent and arising in a later session; monitors: a require of a task on the execution stack must not return, must be diagnosed as a cyclic dependency, no task is entered a second time, depth / execution-count guards never fire. Non-trivial as C05.",
      vec![c("x-cycle-td", 240_000, 2_500_000), c("x-cycle-bu", 180_000, 2_000_000)]),
    "C08" => ("e1", "class-W programs whose tasks change their dependency sets with resource values, over top-down, mixed and crash-injecting histories; class-M programs (a second dependency on one target with another checker: recorded finding); oracle: after every returning session the guarded store dump equals the ledger of latest executions (targets, kinds, checker, stamp serial, order, outputs, no reserved edges on completed tasks, symmetric adjacency) and no check is ever made against a stamp of an earlier execution. Non-trivial = some session both reused and re-executed tasks.",
      vec![c("td", 180_000, 2_000_000), c("bu-mixed", 180_000, 2_000_000), c("td-crash", 120_000, 1_000_000), c("bu-crash", 120_000, 1_000_000), c("m-td", 60_000, 500_000), c("m-bu", 60_000, 500_000)]),
    "C09" => ("e1", "programs mixing exact, parity, existence-only, version (logical clock), threshold and always-consistent resource checkers and six output checkers (five built-in ones through a delegating instrumented checker); histories with changes a coarse checker must ignore and with writes by the task itself; oracles: stamp route and timing (reader handed to the task, after write_fn, from the returned output), verdict relation of every output check, consistent never re-executes, inconsistent always does. Non-trivial = a session both reused and re-executed tasks and a coarse checker ignored a real value change.",
      vec![c("td", 180_000, 2_000_000), c("bu-allroots", 150_000, 1_500_000), c("td-big", 90_000, 1_000_000), c("m-td", 90_000, 1_000_000), c("bu-big", 90_000, 1_000_000), c("td-files", 45_000, 400_000), c("bu-files", 30_000, 300_000), c("td-backends", 60_000, 500_000), c("td-crash", 90_000, 1_000_000), c("bu-crash", 90_000, 1_000_000)]),
    "C10" => ("e2", "seeded operation histories (add_node / add_edge / remove_edge / remove_outgoing_edges_of_node / remove_node, <= 12 live nodes, <= 60 (long: 120) operations, biased to back-edges, cycle-closing edges, re-insertions and dead handles) over DAG<u32,u64> with a seeded hasher; after every operation: rank bijection onto 1..n, ascending edges, exact add_edge verdict vs DFS reference, rollback of rejected insertions. Non-trivial = history with an order-changing insertion (rank(dst) < rank(src)) and a removal.",
      vec![c("short", 150_000, 2_500_000), c("long", 50_000, 1_200_000)]),
    "C11" => ("e2", "same histories as C10; after every operation every public query for every ordered pair of live and dead handles is compared with the reference graph (first-insertion order and data, symmetric adjacency, descendants exact / once / ascending, transitive reachability, topo_cmp, removal results). Non-trivial as C10.",
      vec![c("short", 150_000, 2_500_000), c("long", 50_000, 1_200_000)]),
    "C13" => ("e3", "seeded histories of one path through {absent, file of sizes 0..65537 around the 8 KiB buffer with pattern / uniform / zero-padded content, directory with name sets whose concatenations coincide} with explicit modification times (far past .. far future, backwards jumps); stamps through path / fresh reader / just-used writer (with delete and rewrite faults before stamping) must agree; checks of remembered stamps must be inconsistent exactly when the documented aspect differs; readers stay fresh after stamping; write creates / truncates / refuses directories. Non-trivial = a stamped state was checked against a later state after >= 2 modifications.",
      vec![c("fs", 20_000, 600_000)]),
    "C14" => ("e4", "seeded histories over three map key types (two sharing a value type) and two unrelated resource types in one Pie: direct edits, reads, writer operations (insert / get / get_mut / entry), stamps by three routes, checks of remembered stamps, an incremental task reading and writing through the context, and raw typed state accesses (get / get_mut / set / get_boxed(_mut) / set_boxed / get_or_set_default(_mut)) with matching and non-matching state types; after every operation the returned value and the complete observable state of every resource type equal the model. Non-trivial = >= 3 resource types hold state and a remembered stamp was checked.",
      vec![c("mix", 300_000, 10_000_000)]),
    "C15" => ("e1", "class-W programs over task families T<0>, T<1>, Box<T<2>>, Rc<T<3>>, Arc<T<4>> and the wrappers Box<T<0>>, Rc<T<0>> around the very type of family 0, and resource families R<0>, R<1>, all with coinciding ids, hashes and Debug text; every scenario starts with direct trait-object equality probes over all key pairs; oracles: from-scratch outputs (scripts differ per key), one node per key in the store dump, dependencies attached to the right node. Non-trivial = some session both reused and re-executed tasks.",
      vec![c("id-td", 240_000, 2_500_000), c("id-bu", 180_000, 2_000_000), c("td", 90_000, 1_000_000), c("id-bu-crash", 120_000, 1_000_000)]),
    "C16" => ("e1", "every scenario is replayed under perturbations that must not matter: another hash seed, after unrelated instances were built and dropped on the same thread, in a fresh thread, with OS-random hash seeds, and (configurations *-replay-proc) in a second process with OS-random hash seeds; the complete unified event log (task-side, checker-side, resource-side and tracker events incl. stamps) must be identical. Non-trivial = some session both reused and re-executed tasks.",
      vec![c("td-replay", 20_000, 700_000), c("bu-replay", 20_000, 700_000), c("bu-mixed-replay", 10_000, 300_000), c("bu-big-replay", 60_000, 1_500_000), c("files-replay", 8_000, 200_000), c("td-replay-thread", 2_000, 100_000), c("bu-replay-thread", 2_000, 100_000), c("td-replay-proc", 250, 20_000), c("bu-replay-proc", 250, 20_000)]),
    "C17" => ("e1", "tracker = Composite(Rec, Composite(EventTracker, Rec)) in every scenario (top-down, bottom-up, checker errors, diagnosed violations): both recorders identical, strict stack nesting, execute / check / require events match the task-side and checker-side logs, EventTracker contents, indices and every helper x event x key (incl. a foreign key) equal a reference scan. Non-trivial = some session both reused and re-executed tasks.",
      vec![c("td", 150_000, 2_000_000), c("bu-pure", 150_000, 2_000_000), c("td-checkerr", 90_000, 1_000_000), c("bu-checkerr", 90_000, 1_000_000), c("bu-big", 90_000, 1_000_000), c("x-any-td", 60_000, 500_000), c("bu-backends", 60_000, 500_000), c("td-files", 24_000, 200_000)]),
    "C18" => ("e1", "class-W scenarios in which chosen `check` calls (k-th call of a session, or every check of a resource) return an error, top-down and bottom-up; oracles: the owning task is re-executed / scheduled and never reused, every injected error appears exactly once and in order in Session::dependency_check_errors, the build does not abort, results still equal the from-scratch build. Non-trivial = at least one injected checker error fired.",
      vec![c("td-checkerr", 240_000, 2_500_000), c("bu-checkerr", 240_000, 2_500_000)]),
    "C19" => ("e1", "class-W, class-X and class-V scenarios with aborts: injected panics at seeded ticks (any operation of any task at any depth, inside write functions and checker calls) and diagnosed violations; the instance is used again: later top-down sessions must return from-scratch results, abort only for an existing violation or with a listed stale-edge signature, never with an internal error; the world after an abort holds exactly the writes that happened. Non-trivial = a crash fired and a later top-down session returned.",
      vec![c("td-crash", 240_000, 3_000_000), c("bu-crash", 150_000, 2_000_000), c("x-any-td", 180_000, 2_000_000), c("x-any-crash", 120_000, 1_000_000), c("v-td-crash", 120_000, 1_000_000)]),
    "C20" => ("e1", "class-W programs (any diagnostic abort is a violation) and class-V programs (two or three well-formed sub-programs with different role assignments selected by a mode resource; every state is violation-free): a diagnostic abort must exist in a from-scratch build of all known tasks, else it must be explained by recorded dependencies of tasks not yet validated in the session (stale-edge signature: listed finding or violation); unexplained aborts and internal errors are violations. Non-trivial = a diagnostic abort happened or a session both reused and re-executed.",
      vec![c("v-td", 240_000, 2_500_000), c("v-bu", 120_000, 1_500_000), c("td", 120_000, 1_000_000), c("bu-mixed", 120_000, 1_000_000), c("bu-big", 60_000, 500_000), c("v-bu-big", 180_000, 1_500_000), c("v-td-crash", 120_000, 1_000_000), c("v-td-checkerr", 120_000, 1_000_000)]),
    _ => return None,
  })
}

fn probes_of(prop: &str) -> Vec<&'static str> {
  match prop {
    "C01" | "C02" | "C09" => vec!["probe_early_cutoff", "probe_dependency_set_changed", "probe_generated_resource_repaired", "access_sim_RA", "access_map_MK2", "access_file"],
    "C03" | "C04" => vec!["probe_early_cutoff", "probe_dependency_set_changed", "probe_bu_queue_ge3", "probe_bu_nested_execution_of_scheduled_task", "probe_bu_new_task_executed_nested", "probe_generated_resource_repaired"],
    "C05" => vec!["abort_Hidden", "abort_for_existing_violation"],
    "C06" => vec!["abort_Overlap", "abort_for_existing_violation", "fault_crash_fired"],
    "C07" => vec!["abort_Cycle", "abort_for_existing_violation"],
    "C08" => vec!["probe_dependency_set_changed", "fault_crash_fired", "probe_reserved_edge_after_abort"],
    "C10" | "C11" => vec!["add_edge_reorder", "add_edge_cycle_rejected", "add_edge_existing", "add_edge_node_missing", "remove_node_live", "remove_out_nonempty", "remove_edge_existing", "reorder_moved_ge3"],
    "C13" => vec!["fault_delete_before_stamp_writer", "fault_modify_before_stamp_writer", "op_dir_add", "op_check", "stamp_check_pairs"],
    "C14" => vec!["op_raw", "op_task", "op_check", "op_writer"],
    "C16" => vec!["replay_variant_1", "replay_variant_2", "replay_variant_3", "replay_variant_4", "replay_variant_second_process"],
    "C17" => vec!["fault_checker_error_fired", "abort_Hidden", "probe_bu_queue_ge3"],
    "C18" => vec!["fault_checker_error_fired"],
    "C19" => vec!["fault_crash_fired", "probe_reserved_edge_after_abort", "abort_Cycle", "abort_Hidden", "abort_Overlap"],
    "C20" => vec!["stale_edge_abort:cycle:stale-require", "stale_edge_abort:overlap:stale-writer", "stale_edge_abort:hidden:stale-reader", "stale_edge_abort:hidden:stale-writer"],
    _ => vec![],
  }
}

pub fn check(prop: &str, tier: &str) -> i32 {
  let Some((engine, rule, configs)) = spec(prop) else { eprintln!("no check for property {prop}"); return 2; };
  let prop_static: &'static str = Box::leak(prop.to_string().into_boxed_str());
  match engine {
    "e1" => run_check(&BuildEngine, &CheckSpec { prop: prop_static, rule, assumptions: E1_ASSUME.to_vec(), configs, probes: probes_of(prop) }, tier),
    "e2" => run_check(&DagEngine, &CheckSpec { prop: prop_static, rule, assumptions: vec!["the reference graph (ordered adjacency lists + DFS) is correct", "hash order is controlled through the guarded seeded-hasher seam", "<= 12 live nodes, <= 120 operations per history; evidence over sampled histories, not proof"], configs, probes: probes_of(prop) }, tier),
    "e3" => run_check(&FsEngine, &CheckSpec { prop: prop_static, rule, assumptions: vec!["runs on the real kernel filesystem of this machine (tmpfs under /dev/shm, else the temp dir)", "SHA-256 collisions are ignored", "kernel directory iteration order is not controlled: only 'untouched' and 'different name set' are claimed for directories"], configs, probes: probes_of(prop) }, tier),
    _ => run_check(&StateEngine, &CheckSpec { prop: prop_static, rule, assumptions: vec!["the map-of-maps reference model is correct", "evidence over sampled histories, not proof"], configs, probes: probes_of(prop) }, tier),
  }
}

pub fn list() {
  for i in 1..=20 { let p = format!("C{i:02}"); if spec(&p).is_some() { println!("{p}"); } }
}

pub fn configs_of(prop: &str) -> Vec<&'static str> {
  spec(prop).map(|s| s.2.iter().map(|c| c.name).collect()).unwrap_or_default()
}
