//! Seeded PRNG (SplitMix64-seeded xoshiro256**). The only source of randomness in the simulator.

#[derive(Clone, Debug)]
pub struct Rng {
  s: [u64; 4],
}

#[inline]
pub fn splitmix(state: &mut u64) -> u64 {
  *state = state.wrapping_add(0x9E37_79B9_7F4A_7C15);
  let mut z = *state;
  z = (z ^ (z >> 30)).wrapping_mul(0xBF58_476D_1CE4_E5B9);
  z = (z ^ (z >> 27)).wrapping_mul(0x94D0_49BB_1331_11EB);
  z ^ (z >> 31)
}

/// FNV-1a over a string, used to derive per-check streams.
pub fn hash_str(s: &str) -> u64 {
  let mut h: u64 = 0xcbf2_9ce4_8422_2325;
  for b in s.bytes() {
    h ^= b as u64;
    h = h.wrapping_mul(0x1000_0000_01b3);
  }
  h
}

/// Mixes a master seed, a stream id and a run index into one run seed.
pub fn mix(master: u64, stream: u64, index: u64) -> u64 {
  let mut st = master ^ stream.rotate_left(17) ^ index.wrapping_mul(0xD6E8_FEB8_6659_FD93);
  let a = splitmix(&mut st);
  let b = splitmix(&mut st);
  a ^ b.rotate_left(31) ^ index
}

impl Rng {
  pub fn new(seed: u64) -> Self {
    let mut st = seed;
    let s = [splitmix(&mut st), splitmix(&mut st), splitmix(&mut st), splitmix(&mut st)];
    Rng { s }
  }
  #[inline]
  pub fn next(&mut self) -> u64 {
    let result = self.s[1].wrapping_mul(5).rotate_left(7).wrapping_mul(9);
    let t = self.s[1] << 17;
    self.s[2] ^= self.s[0];
    self.s[3] ^= self.s[1];
    self.s[1] ^= self.s[2];
    self.s[0] ^= self.s[3];
    self.s[2] ^= t;
    self.s[3] = self.s[3].rotate_left(45);
    result
  }
  /// Uniform in 0..n (n > 0).
  #[inline]
  pub fn below(&mut self, n: u64) -> u64 {
    debug_assert!(n > 0);
    ((self.next() >> 11) as u128 * n as u128 >> 53) as u64
  }
  #[inline]
  pub fn range(&mut self, lo: u64, hi_incl: u64) -> u64 { lo + self.below(hi_incl - lo + 1) }
  #[inline]
  pub fn chance(&mut self, pct: u64) -> bool { self.below(100) < pct }
  #[inline]
  pub fn pick<'a, T>(&mut self, xs: &'a [T]) -> &'a T { &xs[self.below(xs.len() as u64) as usize] }
  pub fn fork(&mut self) -> Rng { Rng::new(self.next()) }
}
