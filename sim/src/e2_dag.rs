//! E2 dag-sim: operation histories against the real `pie_graph::DAG`, compared with a naive reference graph after
//! every operation. Decides C10 (order / acyclicity / exact cycle verdicts / rollback) and C11 (queries).
use std::cmp::Ordering;
use std::collections::{BTreeMap, BTreeSet};

use pie_graph::{Error, Node, DAG};
use serde::{Deserialize, Serialize};
use serde_json::{json, Value};

use crate::common::{catch, fnv, Engine, RunOutcome, Stats, Violation};
use crate::rng::Rng;

#[derive(Clone, Copy, Debug, Serialize, Deserialize, PartialEq, Eq)]
pub enum DagOp {
  AddNode,
  AddEdge(usize, usize),
  RemoveEdge(usize, usize),
  RemoveOut(usize),
  RemoveNode(usize),
}

#[derive(Clone, Debug, Serialize, Deserialize)]
pub struct DagScn {
  pub hash_seed: u64,
  pub ops: Vec<DagOp>,
}

pub struct DagEngine;

/// Reference graph: ordered adjacency lists.
#[derive(Clone, Default)]
struct RefGraph {
  live: Vec<bool>,
  data: Vec<u32>,
  out: Vec<Vec<(usize, u64)>>,
  inc: Vec<Vec<usize>>,
}

impl RefGraph {
  fn add_node(&mut self, data: u32) -> usize {
    self.live.push(true);
    self.data.push(data);
    self.out.push(vec![]);
    self.inc.push(vec![]);
    self.live.len() - 1
  }
  fn has_edge(&self, a: usize, b: usize) -> bool { self.live[a] && self.live[b] && self.out[a].iter().any(|(d, _)| *d == b) }
  fn reaches(&self, a: usize, b: usize) -> bool {
    // Is there a non-empty path a ->+ b?
    let mut seen = vec![false; self.live.len()];
    let mut stack = vec![a];
    while let Some(x) = stack.pop() {
      for (d, _) in self.out[x].iter() {
        if *d == b { return true; }
        if !seen[*d] { seen[*d] = true; stack.push(*d); }
      }
    }
    false
  }
  fn reachable(&self, a: usize) -> BTreeSet<usize> {
    let mut seen = BTreeSet::new();
    let mut stack = vec![a];
    while let Some(x) = stack.pop() {
      for (d, _) in self.out[x].iter() {
        if seen.insert(*d) { stack.push(*d); }
      }
    }
    seen
  }
  fn remove_edge(&mut self, a: usize, b: usize) -> Option<u64> {
    let pos = self.out[a].iter().position(|(d, _)| *d == b)?;
    let (_, data) = self.out[a].remove(pos);
    self.inc[b].retain(|s| *s != a);
    Some(data)
  }
  fn remove_out(&mut self, a: usize) -> Vec<(usize, u64)> {
    let edges = std::mem::take(&mut self.out[a]);
    for (d, _) in edges.iter() { self.inc[*d].retain(|s| *s != a); }
    edges
  }
  fn remove_node(&mut self, a: usize) {
    self.remove_out(a);
    let parents = std::mem::take(&mut self.inc[a]);
    for p in parents { self.out[p].retain(|(d, _)| *d != a); }
    self.live[a] = false;
  }
}

/// Complete observable state of the real DAG (for rollback comparison and C11).
#[derive(Clone, PartialEq, Eq, Debug)]
struct Snapshot {
  ranks: Vec<Option<u32>>,
  out: Vec<Vec<(usize, u64)>>,
  inc: Vec<Vec<usize>>,
  len: usize,
}

fn idx_of(handles: &[Node], n: &Node) -> usize { handles.iter().position(|h| h == n).unwrap_or(usize::MAX) }

fn snapshot(dag: &DAG<u32, u64>, handles: &[Node]) -> Snapshot {
  let mut ranks = vec![None; handles.len()];
  for (rank, node) in dag.iter_unsorted() {
    let i = idx_of(handles, &node);
    if i != usize::MAX { ranks[i] = Some(rank); }
  }
  let out = handles.iter().map(|h| dag.get_outgoing_edges(h).map(|(n, d)| (idx_of(handles, n), *d)).collect()).collect();
  let inc = handles.iter().map(|h| dag.get_incoming_edge_nodes(h).map(|n| idx_of(handles, n)).collect()).collect();
  Snapshot { ranks, out, inc, len: dag.len() }
}

impl DagEngine {
  fn check_c10(&self, dag: &DAG<u32, u64>, handles: &[Node], rg: &RefGraph, step: usize, vs: &mut Vec<Violation>) {
    let live: Vec<usize> = (0..handles.len()).filter(|i| rg.live[*i]).collect();
    let n = live.len();
    let mut seen = BTreeMap::new();
    let mut count = 0;
    for (rank, node) in dag.iter_unsorted() {
      count += 1;
      let i = idx_of(handles, &node);
      if i == usize::MAX || !rg.live[i] {
        vs.push(Violation::new(&["C10", "C11"], "dag-node-set", step, format!("iter_unsorted yields a node that is not live (handle index {i})")));
        return;
      }
      if rank < 1 || rank as usize > n {
        vs.push(Violation::new(&["C10"], "dag-rank-range", step, format!("rank {rank} of node {i} outside 1..={n}")));
        return;
      }
      if let Some(prev) = seen.insert(rank, i) {
        vs.push(Violation::new(&["C10"], "dag-rank-bijection", step, format!("rank {rank} assigned to nodes {prev} and {i}")));
        return;
      }
    }
    if count != n || dag.len() != n {
      vs.push(Violation::new(&["C10", "C11"], "dag-node-set", step, format!("{count} nodes iterated, len()={}, reference has {n} live nodes", dag.len())));
      return;
    }
    let rank_of: BTreeMap<usize, u32> = seen.iter().map(|(r, i)| (*i, *r)).collect();
    for a in live.iter() {
      for (b, _) in rg.out[*a].iter() {
        if rank_of[a] >= rank_of[b] {
          vs.push(Violation::new(&["C10"], "dag-edge-ascending", step, format!("edge {a}->{b} has rank {} >= {}", rank_of[a], rank_of[b])));
          return;
        }
      }
      // Also edges that the real graph claims to have.
      for n in dag.get_outgoing_edge_nodes(&handles[*a]) {
        let b = idx_of(handles, n);
        if b != usize::MAX && rg.live[b] {
          if rank_of[a] >= rank_of[&b] {
            vs.push(Violation::new(&["C10"], "dag-edge-ascending", step, format!("real edge {a}->{b} has rank {} >= {}", rank_of[a], rank_of[&b])));
            return;
          }
        }
      }
    }
  }

  fn check_c11(&self, dag: &DAG<u32, u64>, handles: &[Node], rg: &RefGraph, step: usize, vs: &mut Vec<Violation>) {
    let m = handles.len();
    let p11 = &["C11"];
    let ranks: BTreeMap<usize, u32> = dag.iter_unsorted().map(|(r, n)| (idx_of(handles, &n), r)).collect();
    for a in 0..m {
      let ha = &handles[a];
      let la = rg.live[a];
      if dag.contains_node(ha) != la { vs.push(Violation::new(p11, "dag-contains-node", step, format!("contains_node({a}) = {} but live = {la}", !la))); return; }
      let nd = dag.get_node_data(ha).copied();
      if nd != la.then(|| rg.data[a]) { vs.push(Violation::new(p11, "dag-node-data", step, format!("get_node_data({a}) = {nd:?}"))); return; }
      // Outgoing, in first-insertion order, with the data of the first insertion.
      let exp_out: Vec<(usize, u64)> = if la { rg.out[a].clone() } else { vec![] };
      let got_out: Vec<(usize, u64)> = dag.get_outgoing_edges(ha).map(|(n, d)| (idx_of(handles, n), *d)).collect();
      if got_out != exp_out { vs.push(Violation::new(p11, "dag-outgoing-order", step, format!("get_outgoing_edges({a}) = {got_out:?}, reference (first-insertion order) = {exp_out:?}"))); return; }
      let got_nodes: Vec<usize> = dag.get_outgoing_edge_nodes(ha).map(|n| idx_of(handles, n)).collect();
      let got_data: Vec<u64> = dag.get_outgoing_edge_data(ha).copied().collect();
      let got_ndata: Vec<u32> = dag.get_outgoing_edge_node_data(ha).copied().collect();
      if got_nodes != exp_out.iter().map(|e| e.0).collect::<Vec<_>>() || got_data != exp_out.iter().map(|e| e.1).collect::<Vec<_>>()
        || got_ndata != exp_out.iter().map(|e| rg.data[e.0]).collect::<Vec<_>>() {
        vs.push(Violation::new(p11, "dag-outgoing-variants", step, format!("outgoing iterator variants of {a} disagree: nodes {got_nodes:?} data {got_data:?} node-data {got_ndata:?} vs {exp_out:?}"))); return;
      }
      // Incoming.
      let exp_in: Vec<usize> = if la { rg.inc[a].clone() } else { vec![] };
      let got_in: Vec<(usize, u64)> = dag.get_incoming_edges(ha).map(|(n, d)| (idx_of(handles, n), *d)).collect();
      let exp_in_full: Vec<(usize, u64)> = exp_in.iter().map(|s| (*s, rg.out[*s].iter().find(|(d, _)| *d == a).map(|e| e.1).unwrap_or(u64::MAX))).collect();
      if got_in != exp_in_full { vs.push(Violation::new(p11, "dag-incoming-order", step, format!("get_incoming_edges({a}) = {got_in:?}, reference = {exp_in_full:?}"))); return; }
      let got_in_nodes: Vec<usize> = dag.get_incoming_edge_nodes(ha).map(|n| idx_of(handles, n)).collect();
      let got_in_data: Vec<u64> = dag.get_incoming_edge_data(ha).copied().collect();
      let got_in_ndata: Vec<u32> = dag.get_incoming_edge_node_data(ha).copied().collect();
      if got_in_nodes != exp_in || got_in_data != exp_in_full.iter().map(|e| e.1).collect::<Vec<_>>() || got_in_ndata != exp_in.iter().map(|s| rg.data[*s]).collect::<Vec<_>>() {
        vs.push(Violation::new(p11, "dag-incoming-variants", step, format!("incoming iterator variants of {a} disagree: {got_in_nodes:?} {got_in_data:?} {got_in_ndata:?} vs {exp_in_full:?}"))); return;
      }
      // Descendants.
      match dag.descendants(ha) {
        Ok(it) => {
          if !la { vs.push(Violation::new(p11, "dag-descendants", step, format!("descendants of removed node {a} is Ok"))); return; }
          let got: Vec<usize> = it.map(|n| idx_of(handles, &n)).collect();
          let exp = rg.reachable(a);
          let got_set: BTreeSet<usize> = got.iter().copied().collect();
          if got_set != exp || got.len() != exp.len() { vs.push(Violation::new(p11, "dag-descendants", step, format!("descendants({a}) = {got:?}, reachable = {exp:?}"))); return; }
          let rs: Vec<u32> = got.iter().map(|i| ranks.get(i).copied().unwrap_or(0)).collect();
          if rs.windows(2).any(|w| w[0] >= w[1]) { vs.push(Violation::new(p11, "dag-descendants-sorted", step, format!("descendants({a}) = {got:?} ranks {rs:?} not ascending"))); return; }
        }
        Err(e) => { if la || e != Error::NodeMissing { vs.push(Violation::new(p11, "dag-descendants", step, format!("descendants({a}) = Err({e:?}) live={la}"))); return; } }
      }
      match dag.descendants_unsorted(ha) {
        Ok(it) => {
          if !la { vs.push(Violation::new(p11, "dag-descendants-unsorted", step, format!("descendants_unsorted of removed node {a} is Ok"))); return; }
          let got: Vec<(u32, usize)> = it.map(|(r, n)| (r, idx_of(handles, &n))).collect();
          let exp = rg.reachable(a);
          let got_set: BTreeSet<usize> = got.iter().map(|g| g.1).collect();
          if got_set != exp || got.len() != exp.len() { vs.push(Violation::new(p11, "dag-descendants-unsorted", step, format!("descendants_unsorted({a}) = {got:?}, reachable = {exp:?}"))); return; }
          if got.iter().any(|(r, i)| ranks.get(i) != Some(r)) { vs.push(Violation::new(p11, "dag-descendants-unsorted", step, format!("descendants_unsorted({a}) reports wrong ranks: {got:?}"))); return; }
        }
        Err(e) => { if la || e != Error::NodeMissing { vs.push(Violation::new(p11, "dag-descendants-unsorted", step, format!("descendants_unsorted({a}) = Err({e:?}) live={la}"))); return; } }
      }
      for b in 0..m {
        let hb = &handles[b];
        let lb = rg.live[b];
        let exp_edge = la && lb && rg.has_edge(a, b);
        if dag.contains_edge(ha, hb) != exp_edge { vs.push(Violation::new(p11, "dag-contains-edge", step, format!("contains_edge({a},{b}) = {} but reference = {exp_edge}", !exp_edge))); return; }
        let exp_data = if exp_edge { rg.out[a].iter().find(|(d, _)| *d == b).map(|e| e.1) } else { None };
        let got = dag.get_edge_data(ha, hb).copied();
        if got != exp_data { vs.push(Violation::new(p11, "dag-edge-data", step, format!("get_edge_data({a},{b}) = {got:?}, reference = {exp_data:?}"))); return; }
        let exp_trans = la && lb && a != b && rg.reaches(a, b);
        let got = dag.contains_transitive_edge(ha, hb);
        if got != exp_trans { vs.push(Violation::new(p11, "dag-transitive", step, format!("contains_transitive_edge({a},{b}) = {got} but reference = {exp_trans}"))); return; }
        if la && lb {
          let exp = ranks.get(&a).cmp(&ranks.get(&b));
          let got = dag.topo_cmp(ha, hb);
          if got != exp { vs.push(Violation::new(p11, "dag-topo-cmp", step, format!("topo_cmp({a},{b}) = {got:?} but ranks say {exp:?}"))); return; }
          if a != b && got == Ordering::Equal { vs.push(Violation::new(&["C10", "C11"], "dag-topo-cmp", step, format!("topo_cmp({a},{b}) = Equal for two distinct live nodes"))); return; }
          if got != dag.topo_cmp(hb, ha).reverse() { vs.push(Violation::new(p11, "dag-topo-cmp", step, format!("topo_cmp({a},{b}) = {got:?} is not the reverse of topo_cmp({b},{a})"))); return; }
          if exp_trans && got != Ordering::Less { vs.push(Violation::new(&["C10", "C11"], "dag-topo-cmp", step, format!("{a} reaches {b} but topo_cmp = {got:?}"))); return; }
        }
      }
    }
  }
}

impl Engine for DagEngine {
  type Scn = DagScn;
  fn name(&self) -> &'static str { "e2-dag" }

  fn generate(&self, rng: &mut Rng, config: &str, _prop: &str) -> DagScn {
    let hash_seed = rng.next();
    // `wide`: up to 30 live nodes and 240 operations (large affected regions in the Pearce-Kelly re-ordering).
    // `marathon`: few nodes, 400..1200 operations (state that accumulates on one instance: epochs, counters, reused
    // slots). `chain`: a directed prelude (old nodes, then a chain of 34..60 nodes, then an edge from the end of the
    // chain to an old node: one re-ordering that moves the whole chain) followed by a short random tail.
    let max_live = if config == "wide" { rng.range(10, 30) as usize } else if config == "marathon" { rng.range(4, 14) as usize } else if config == "chain" { 70 } else { rng.range(3, 12) as usize };
    let nops = if config == "marathon" { rng.range(2500, 6000) as usize } else if config == "chain" { rng.range(8, 40) as usize } else { rng.range(5, if config == "wide" { 240 } else if config == "long" { 120 } else { 60 }) as usize };
    // Swarm weights.
    let w_node = rng.range(1, 4);
    let w_edge = rng.range(4, 12);
    let w_redge = rng.range(0, 3);
    let w_rout = rng.range(0, 2);
    let w_rnode = rng.range(0, 2);
    let mut back_bias = rng.range(0, 80);
    let readd_bias = rng.range(0, 30);
    // `marathon`: mostly order-violating insertions (every one is a search) and enough removals to keep the graph sparse.
    let (w_node, w_edge, w_redge, w_rout, w_rnode) = if config == "marathon" { back_bias = rng.range(50, 90); (1, rng.range(10, 14), rng.range(3, 6), rng.range(1, 3), rng.range(0, 1)) } else { (w_node, w_edge, w_redge, w_rout, w_rnode) };
    let mut ops = vec![];
    // Track approximate structure to bias generation (indices only; the reference model is rebuilt in run()).
    let mut live: Vec<usize> = vec![];
    let mut total = 0usize;
    let mut edges: Vec<(usize, usize)> = vec![];
    let (mut phase_left, mut cluster) = (0u64, 0usize);
    if config == "chain" {
      let nold = rng.range(1, 3) as usize;
      let len = rng.range(34, 60) as usize;
      for _ in 0..nold + len { ops.push(DagOp::AddNode); live.push(total); total += 1; }
      // The chain, edges inserted in a random order (each insertion may re-order a part of it).
      let mut links: Vec<usize> = (nold..nold + len - 1).collect();
      if rng.chance(50) { for i in (1..links.len()).rev() { let j = rng.below(i as u64 + 1) as usize; links.swap(i, j); } }
      for i in links { ops.push(DagOp::AddEdge(i, i + 1)); edges.push((i, i + 1)); }
      // A few shortcuts along the chain.
      for _ in 0..rng.below(4) { let a = nold + rng.below(len as u64 - 2) as usize; let b = a + 1 + rng.below((nold + len - a - 1) as u64) as usize; ops.push(DagOp::AddEdge(a, b)); edges.push((a, b)); }
      // The end of the chain now requires an old node: everything moves.
      let old = rng.below(nold as u64) as usize;
      ops.push(DagOp::AddEdge(nold + len - 1, old));
      edges.push((nold + len - 1, old));
      // Cycle-closing attempts inside the moved region.
      for _ in 0..rng.range(2, 8) { let a = nold + rng.below(len as u64) as usize; let b = nold + rng.below(len as u64) as usize; let (a, b) = if a < b { (b, a) } else { (a, b) }; if a != b { ops.push(DagOp::AddEdge(a, b)); } }
      ops.push(DagOp::AddEdge(old, nold));
    }
    for _ in 0..nops {
      let tot = w_node + w_edge + w_redge + w_rout + w_rnode;
      let mut k = rng.below(tot);
      if total < 2 || (live.len() < 2 && total < 4) { k = 0; }
      if k < w_node {
        if live.len() >= max_live { k = w_node; } else {
          ops.push(DagOp::AddNode);
          live.push(total);
          total += 1;
          continue;
        }
      }
      // `marathon`: phases of 500..1300 operations (more than 255 searches) that stay (mostly) inside one of up to three clusters of nodes, so that
      // the other nodes are left alone for hundreds of searches before they are touched again.
      if config == "marathon" && phase_left == 0 { phase_left = rng.range(500, 1300); cluster = rng.below(3) as usize; }
      phase_left = phase_left.saturating_sub(1);
      let focus = config == "marathon" && rng.chance(93);
      let any = |rng: &mut Rng, live: &Vec<usize>, total: usize| -> usize {
        // Mostly live handles, sometimes any handle (dead ones included).
        if focus { let c: Vec<usize> = live.iter().copied().filter(|x| x % 3 == cluster).collect(); if !c.is_empty() { return *rng.pick(&c); } }
        if !live.is_empty() && rng.chance(92) { *rng.pick(live) } else { rng.below(total as u64) as usize }
      };
      k -= w_node.min(k);
      if k < w_edge {
        let (mut a, mut b) = (any(rng, &live, total), any(rng, &live, total));
        if !edges.is_empty() && rng.chance(readd_bias) {
          let e = *rng.pick(&edges);
          a = e.0; b = e.1;
        } else if !edges.is_empty() && rng.chance(back_bias) {
          // Bias towards reversing or extending existing paths: pick dst among nodes that precede src in some edge chain.
          let e = *rng.pick(&edges);
          if rng.chance(50) { a = e.1; b = e.0; } else { a = e.1; }
        }
        if a == b && rng.chance(85) && live.len() > 1 { b = *rng.pick(&live); }
        ops.push(DagOp::AddEdge(a, b));
        edges.push((a, b));
        continue;
      }
      k -= w_edge;
      if k < w_redge {
        let (a, b) = if !edges.is_empty() && rng.chance(85) { *rng.pick(&edges) } else { (any(rng, &live, total), any(rng, &live, total)) };
        ops.push(DagOp::RemoveEdge(a, b));
        edges.retain(|e| *e != (a, b));
        continue;
      }
      k -= w_redge;
      if k < w_rout {
        let a = any(rng, &live, total);
        ops.push(DagOp::RemoveOut(a));
        edges.retain(|e| e.0 != a);
        continue;
      }
      let a = any(rng, &live, total);
      ops.push(DagOp::RemoveNode(a));
      live.retain(|x| *x != a);
      edges.retain(|e| e.0 != a && e.1 != a);
    }
    DagScn { hash_seed, ops }
  }

  fn run(&self, scn: &DagScn, prop: &str) -> RunOutcome {
    let mut out = RunOutcome::default();
    let mut stats = Stats::default();
    pie_graph::verif::set_hash_seed(Some(scn.hash_seed));
    let mut dag: DAG<u32, u64> = DAG::default();
    let mut handles: Vec<Node> = vec![];
    let mut rg = RefGraph::default();
    let mut fp = 0xcbf2_9ce4_8422_2325u64;
    let mut trace = fp;
    let mut next_data = 1u64;
    let mut vs: Vec<Violation> = vec![];
    let mut reorders = 0u64;
    let mut rejected = 0u64;
    for (step, op) in scn.ops.iter().enumerate() {
      let valid = |i: usize| i < handles.len();
      match *op {
        DagOp::AddNode => {
          fnv(&mut fp, 1);
          let data = handles.len() as u32 + 100;
          let r = catch(|| dag.add_node(data));
          match r {
            Ok(h) => { handles.push(h); rg.add_node(data); }
            Err(p) => { vs.push(Violation::new(&["C10", "C11"], "dag-panic", step, format!("add_node panicked: {}", p.short()))); break; }
          }
          stats.hit("op_add_node");
        }
        DagOp::AddEdge(a, b) => {
          if !valid(a) || !valid(b) { continue; }
          fnv(&mut fp, 2 + (a as u64) * 31 + (b as u64) * 977);
          let before = snapshot(&dag, &handles);
          let data = next_data;
          next_data += 1;
          let (la, lb) = (rg.live[a], rg.live[b]);
          let expected: Result<bool, Error> = if !la || !lb { Err(Error::NodeMissing) }
            else if a == b || rg.reaches(b, a) { Err(Error::CycleDetected) }
            else if rg.has_edge(a, b) { Ok(false) } else { Ok(true) };
          let got = catch(|| dag.add_edge(&handles[a], &handles[b], data));
          let got = match got {
            Ok(g) => g,
            Err(p) => { vs.push(Violation::new(&["C10", "C11"], "dag-panic", step, format!("add_edge({a},{b}) panicked: {}", p.short()))); break; }
          };
          fnv(&mut trace, match &got { Ok(true) => 1, Ok(false) => 2, Err(Error::CycleDetected) => 3, Err(Error::NodeMissing) => 4 });
          if got != expected {
            let props: &[&str] = if matches!(got, Err(Error::CycleDetected)) || matches!(expected, Err(Error::CycleDetected)) { &["C10"] } else { &["C10", "C11"] };
            vs.push(Violation::new(props, "dag-add-edge-verdict", step, format!("add_edge({a},{b}) = {got:?}, reference says {expected:?}")));
            break;
          }
          match expected {
            Ok(true) => {
              rg.out[a].push((b, data));
              rg.inc[b].push(a);
              let (ra, rb) = (before.ranks[a].unwrap_or(0), before.ranks[b].unwrap_or(0));
              if rb < ra {
                reorders += 1;
                stats.hit("add_edge_reorder");
                let after = snapshot(&dag, &handles);
                if before.ranks.iter().zip(after.ranks.iter()).filter(|(x, y)| x != y).count() >= 3 { stats.hit("reorder_moved_ge3"); }
              }
              stats.hit("add_edge_new");
            }
            Ok(false) => {
              stats.hit("add_edge_existing");
              let after = snapshot(&dag, &handles);
              if after != before {
                let props: &[&str] = if after.ranks != before.ranks { &["C10", "C11"] } else { &["C11"] };
                vs.push(Violation::new(props, "dag-readd-changes-state", step, format!("re-adding existing edge {a}->{b} changed the observable state: before out[{a}]={:?} after out[{a}]={:?}; before in[{b}]={:?} after in[{b}]={:?}", before.out[a], after.out[a], before.inc[b], after.inc[b])));
                break;
              }
            }
            Err(Error::CycleDetected) => {
              rejected += 1;
              stats.hit(if a == b { "add_edge_self_loop" } else { "add_edge_cycle_rejected" });
              let after = snapshot(&dag, &handles);
              if after != before {
                vs.push(Violation::new(&["C10"], "dag-rollback", step, format!("rejected add_edge({a},{b}) changed the graph: before {before:?} after {after:?}")));
                break;
              }
            }
            Err(Error::NodeMissing) => {
              stats.hit("add_edge_node_missing");
              let after = snapshot(&dag, &handles);
              if after != before {
                vs.push(Violation::new(&["C10", "C11"], "dag-rollback", step, format!("add_edge({a},{b}) on a removed node changed the graph")));
                break;
              }
            }
          }
        }
        DagOp::RemoveEdge(a, b) => {
          if !valid(a) || !valid(b) { continue; }
          fnv(&mut fp, 3 + (a as u64) * 31 + (b as u64) * 977);
          let expected = if rg.live[a] && rg.live[b] { rg.remove_edge(a, b) } else { None };
          let got = match catch(|| dag.remove_edge(&handles[a], &handles[b])) {
            Ok(g) => g,
            Err(p) => { vs.push(Violation::new(&["C10", "C11"], "dag-panic", step, format!("remove_edge({a},{b}) panicked: {}", p.short()))); break; }
          };
          if expected.is_some() { stats.hit("remove_edge_existing"); } else { stats.hit("remove_edge_absent"); }
          if got != expected { vs.push(Violation::new(&["C11"], "dag-remove-edge-result", step, format!("remove_edge({a},{b}) = {got:?}, reference = {expected:?}"))); break; }
        }
        DagOp::RemoveOut(a) => {
          if !valid(a) { continue; }
          fnv(&mut fp, 4 + (a as u64) * 31);
          let expected = if rg.live[a] { let e = rg.remove_out(a); if e.is_empty() { None } else { Some(e) } } else { None };
          let got = match catch(|| dag.remove_outgoing_edges_of_node(&handles[a])) {
            Ok(g) => g.map(|v| v.into_iter().map(|(n, d)| (idx_of(&handles, &n), d)).collect::<Vec<_>>()),
            Err(p) => { vs.push(Violation::new(&["C10", "C11"], "dag-panic", step, format!("remove_outgoing_edges_of_node({a}) panicked: {}", p.short()))); break; }
          };
          if expected.is_some() { stats.hit("remove_out_nonempty"); } else { stats.hit("remove_out_empty"); }
          if got != expected { vs.push(Violation::new(&["C11"], "dag-remove-out-result", step, format!("remove_outgoing_edges_of_node({a}) = {got:?}, reference = {expected:?}"))); break; }
        }
        DagOp::RemoveNode(a) => {
          if !valid(a) { continue; }
          fnv(&mut fp, 5 + (a as u64) * 31);
          let expected = rg.live[a];
          if expected { rg.remove_node(a); stats.hit("remove_node_live"); } else { stats.hit("remove_node_dead"); }
          let got = match catch(|| dag.remove_node(handles[a])) {
            Ok(g) => g,
            Err(p) => { vs.push(Violation::new(&["C10", "C11"], "dag-panic", step, format!("remove_node({a}) panicked: {}", p.short()))); break; }
          };
          if got != expected { vs.push(Violation::new(&["C11"], "dag-remove-node-result", step, format!("remove_node({a}) = {got}, reference = {expected}"))); break; }
        }
      }
      out.steps += 1;
      let r = catch(|| {
        let mut v = vec![];
        self.check_c10(&dag, &handles, &rg, step, &mut v);
        // Both groups are always evaluated: a corrupt order (C10) usually also makes queries answer wrongly (C11).
        self.check_c11(&dag, &handles, &rg, step, &mut v);
        v
      });
      match r {
        // Stop at the first violation of the property being decided; violations of the sibling property are kept (a few)
        // and the history continues, because damage to the order (C10) often shows in queries (C11) only later.
        Ok(v) => { if !v.is_empty() { let mine = v.iter().any(|x| x.concerns(prop)); if vs.len() < 4 { vs.extend(v); } if mine || vs.len() >= 4 { break; } } }
        Err(p) => { vs.push(Violation::new(&["C10", "C11"], "dag-panic", step, format!("a query panicked: {}", p.short()))); break; }
      }
    }
    pie_graph::verif::set_hash_seed(None);
    if reorders >= 1 && rejected >= 1 { stats.hit("run_with_reorder_and_rejection"); }
    out.nontrivial = reorders >= 1 && scn.ops.iter().any(|o| matches!(o, DagOp::RemoveEdge(..) | DagOp::RemoveOut(..) | DagOp::RemoveNode(..)));
    out.fingerprint = fp;
    out.trace_hash = trace ^ fp.rotate_left(13);
    out.stats = stats;
    out.violations = vs;
    out
  }

  fn shrink(&self, scn: &DagScn) -> Vec<DagScn> {
    let mut c = vec![];
    let n = scn.ops.len();
    // Truncate, drop halves, drop single ops (AddNode drops shift later indices: renumber).
    for cut in [n / 2, n * 3 / 4, n.saturating_sub(1)] {
      if cut < n { c.push(DagScn { hash_seed: scn.hash_seed, ops: scn.ops[..cut].to_vec() }); }
    }
    for i in (0..n).rev() {
      let mut ops = scn.ops.clone();
      let removed = ops.remove(i);
      if removed == DagOp::AddNode {
        // Index of the node that this op created.
        let k = scn.ops[..i].iter().filter(|o| **o == DagOp::AddNode).count();
        let mut ok = true;
        let fix = |x: usize, ok: &mut bool| -> usize { if x == k { *ok = false; x } else if x > k { x - 1 } else { x } };
        let mut new_ops = vec![];
        for o in ops.iter() {
          let m = match *o {
            DagOp::AddNode => Some(DagOp::AddNode),
            DagOp::AddEdge(a, b) => { let mut k2 = true; let r = DagOp::AddEdge(fix(a, &mut k2), fix(b, &mut k2)); k2.then_some(r) }
            DagOp::RemoveEdge(a, b) => { let mut k2 = true; let r = DagOp::RemoveEdge(fix(a, &mut k2), fix(b, &mut k2)); k2.then_some(r) }
            DagOp::RemoveOut(a) => { let mut k2 = true; let r = DagOp::RemoveOut(fix(a, &mut k2)); k2.then_some(r) }
            DagOp::RemoveNode(a) => { let mut k2 = true; let r = DagOp::RemoveNode(fix(a, &mut k2)); k2.then_some(r) }
          };
          if let Some(m) = m { new_ops.push(m); }
        }
        let _ = &mut ok;
        c.push(DagScn { hash_seed: scn.hash_seed, ops: new_ops });
      } else {
        c.push(DagScn { hash_seed: scn.hash_seed, ops });
      }
    }
    if scn.hash_seed != 0 { c.push(DagScn { hash_seed: 0, ops: scn.ops.clone() }); }
    c
  }

  fn components(&self) -> Value {
    json!({
      "real": ["pie_graph::DAG (all public operations and queries)", "hashlink::LinkedHashSet", "slotmap"],
      "stub": ["hasher of DAG containers: seeded SipHash through the guarded hasher seam (seed is part of the scenario)"],
      "reference_model": "ordered adjacency lists + DFS reachability",
    })
  }
}
