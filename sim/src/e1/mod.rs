//! E1 build-sim: generated task programs and histories against the real `pie` crate.
pub mod interp;
pub mod model;
pub mod prog;
pub mod run;
pub mod trk;
pub mod world;

use serde_json::{json, Value};

use crate::common::{fnv, Engine, RunOutcome};
use crate::rng::Rng;

use prog::{gen_history, gen_program_m, gen_program_v, gen_program_vx, gen_program_w, gen_program_x, Class, GenCfg, Op, Scenario, Step};

pub struct BuildEngine;

fn cfg_for(config: &str) -> GenCfg {
  // Suffix `-xl`: the same mix with larger bounds (tasks, resources, steps, script length).
  if let Some(base) = config.strip_suffix("-xl") { let mut c = cfg_for(base); c.xl = true; return c; }
  // Suffix `-marathon`: the same mix over small programs with histories of 150..300 steps.
  if let Some(base) = config.strip_suffix("-marathon") { let mut c = cfg_for(base); c.marathon = true; return c; }
  // Suffix `-zst`: the same mix; some reads use checkers with a zero-sized stamp type.
  if let Some(base) = config.strip_suffix("-zst") { let mut c = cfg_for(base); c.zst = true; c.exact_only_pct = 0; return c; }
  let mut c = GenCfg::default();
  match config {
    "td" => {}
    "td-exact" => { c.exact_only_pct = 100; }
    "bu-pure" => { c.bottom_up = 100; }
    "bu-big" => { c.bottom_up = 100; c.big = true; }
    "bu-big-allroots" => { c.bottom_up = 70; c.all_roots_td = true; c.big = true; }
    "td-big" => { c.big = true; }
    "bu-allroots" => { c.bottom_up = 60; c.all_roots_td = true; }
    "bu-mixed" => { c.bottom_up = 60; c.td_between = true; }
    "td-checkerr" => { c.check_errors = true; }
    "bu-checkerr" => { c.check_errors = true; c.bottom_up = 70; c.all_roots_td = true; }
    "td-crash" => { c.crash = true; }
    "x-hidden-td" | "x-overlap-td" | "x-cycle-td" | "x-any-td" => { c.class = Class::X; }
    "x-hidden-bu" | "x-overlap-bu" | "x-cycle-bu" | "x-any-bu" => { c.class = Class::X; c.bottom_up = 50; c.td_between = true; }
    "td-backends" => { c.sim_fams_only = false; }
    "bu-backends" => { c.sim_fams_only = false; c.bottom_up = 60; c.all_roots_td = true; }
    "td-files" => { c.files = true; }
    "bu-files" => { c.files = true; c.bottom_up = 60; c.all_roots_td = true; }
    "files-replay" => { c.files = true; c.replays = 0b1001; c.bottom_up = 40; c.all_roots_td = true; }
    "id-td" => { c.wrappers = true; }
    "id-bu" => { c.wrappers = true; c.bottom_up = 60; c.all_roots_td = true; }
    "id-bu-crash" => { c.wrappers = true; c.bottom_up = 60; c.all_roots_td = true; c.crash = true; }
    "v-td-checkerr" => { c.class = Class::V; c.check_errors = true; }
    "v-td" => { c.class = Class::V; }
    "v-td-crash" => { c.class = Class::V; c.crash = true; }
    "v-bu-big" => { c.class = Class::V; c.bottom_up = 70; c.td_between = true; c.big = true; }
    "x-any-crash" => { c.class = Class::X; c.crash = true; }
    "x-hidden-crash-bu" | "x-overlap-crash-bu" | "x-any-crash-bu" => { c.class = Class::X; c.crash = true; c.bottom_up = 50; c.td_between = true; }
    "bu-big-replay" => { c.replays = 0b0011; c.bottom_up = 100; c.big = true; }
    "v-bu" => { c.class = Class::V; c.bottom_up = 50; c.td_between = true; }
    "m-td" => { c.class = Class::M; }
    "m-bu" => { c.class = Class::M; c.bottom_up = 60; c.all_roots_td = true; }
    "td-replay" => { c.replays = 0b1011; }
    "td-replay-thread" => { c.replays = 0b0100; }
    "td-replay-proc" => { c.replays = 0; c.proc_replay = true; }
    "bu-replay-proc" => { c.replays = 0; c.proc_replay = true; c.bottom_up = 70; c.all_roots_td = true; c.big = true; }
    "bu-replay" => { c.replays = 0b1011; c.bottom_up = 60; c.all_roots_td = true; }
    "bu-replay-thread" => { c.replays = 0b0100; c.bottom_up = 60; c.all_roots_td = true; c.big = true; }
    "bu-mixed-replay" => { c.replays = 0b1011; c.bottom_up = 50; c.td_between = true; }
    "bu-crash" => { c.crash = true; c.bottom_up = 50; c.all_roots_td = true; }
    // Long-lived sessions: external changes between two bottom-up builds of one session.
    "bu-midsession" => { c.bottom_up = 80; c.td_between = true; c.in_session = true; c.mid_session = true; }
    "bu-midsession-big" => { c.bottom_up = 90; c.all_roots_td = true; c.in_session = true; c.mid_session = true; c.big = true; }
    "v-bu-midsession" => { c.class = Class::V; c.bottom_up = 70; c.td_between = true; c.in_session = true; c.mid_session = true; }
    "bu-midsession-replay" => { c.bottom_up = 80; c.td_between = true; c.in_session = true; c.mid_session = true; c.replays = 0b1011; c.big = true; }
    // Sessions that are used further after a build in them aborted.
    "td-crash-samesession" => { c.crash = true; c.same_session = true; }
    "bu-crash-samesession" => { c.crash = true; c.same_session = true; c.bottom_up = 50; c.td_between = true; }
    "x-any-td-samesession" | "x-hidden-td-samesession" | "x-overlap-td-samesession" | "x-cycle-td-samesession" => { c.class = Class::X; c.same_session = true; }
    "x-any-bu-samesession" | "x-hidden-bu-samesession" | "x-overlap-bu-samesession" | "x-cycle-bu-samesession" => { c.class = Class::X; c.same_session = true; c.bottom_up = 50; c.td_between = true; }
    "x-any-crash-samesession" => { c.class = Class::X; c.crash = true; c.same_session = true; c.bottom_up = 30; c.td_between = true; }
    "v-td-crash-samesession" => { c.class = Class::V; c.crash = true; c.same_session = true; }
    "td-checkerr-crash-samesession" => { c.crash = true; c.check_errors = true; c.same_session = true; }
    // Bottom-up sessions with a top-down phase before the build, dropped builds and repeated builds (one session).
    "bu-insession" => { c.bottom_up = 70; c.td_between = true; c.in_session = true; }
    "bu-insession-allroots" => { c.bottom_up = 70; c.all_roots_td = true; c.in_session = true; }
    "bu-insession-big" => { c.bottom_up = 80; c.td_between = true; c.in_session = true; c.big = true; }
    "bu-insession-checkerr" => { c.bottom_up = 70; c.all_roots_td = true; c.in_session = true; c.check_errors = true; }
    "bu-insession-crash" => { c.bottom_up = 60; c.td_between = true; c.in_session = true; c.crash = true; }
    "bu-insession-replay" => { c.bottom_up = 70; c.td_between = true; c.in_session = true; c.replays = 0b1011; c.big = true; }
    "v-bu-insession" => { c.class = Class::V; c.bottom_up = 60; c.td_between = true; c.in_session = true; }
    "x-any-bu-insession" | "x-hidden-bu-insession" | "x-overlap-bu-insession" | "x-cycle-bu-insession" => { c.class = Class::X; c.bottom_up = 60; c.td_between = true; c.in_session = true; }
    _ => {}
  }
  c
}

fn fingerprint(scn: &Scenario) -> u64 {
  let mut h = 0xcbf2_9ce4_8422_2325u64;
  let text = serde_json::to_string(scn).unwrap_or_default();
  for b in text.bytes() { fnv(&mut h, b as u64); }
  h
}

impl Engine for BuildEngine {
  type Scn = Scenario;
  fn name(&self) -> &'static str { "e1-build" }

  fn generate(&self, rng: &mut Rng, config: &str, _prop: &str) -> Scenario {
    let cfg = cfg_for(config);
    let program = match cfg.class {
      Class::X => { let want = match config.trim_end_matches("-xl").trim_end_matches("-zst").trim_end_matches("-marathon") { c if c.starts_with("x-hidden") => *rng.pick(&[0u64, 0, 1, 1, 4]), c if c.starts_with("x-overlap") => 2, c if c.starts_with("x-cycle") => 3, _ => rng.below(5) }; if rng.chance(if cfg.marathon { 70 } else { 25 }) { gen_program_vx(rng, &cfg, want) } else { gen_program_x(rng, &cfg, want) } }
      Class::M => gen_program_m(rng, &cfg),
      Class::V => gen_program_v(rng, &cfg),
      _ => gen_program_w(rng, &cfg),
    };
    let mut program = program;
    if cfg.zst { prog::add_zst_checkers(rng, &mut program); }
    let (init, steps, faults) = gen_history(rng, &program, &cfg);
    Scenario { hash_seed: Some(rng.next()), program, init, steps, faults, replays: cfg.replays, proc_replay: cfg.proc_replay }
  }

  fn run(&self, scn: &Scenario, prop: &str) -> RunOutcome {
    let mut runner = run::Runner::new(scn, prop);
    runner.run();
    let mut out = runner.outcome();
    out.fingerprint = fingerprint(scn);
    if std::env::var("VERIF_DEBUG_LOG").is_ok() {
      for (i, l) in log_lines().iter().enumerate() { if !l.starts_with("Trk(") || std::env::var("VERIF_DEBUG_LOG").as_deref() == Ok("2") { eprintln!("{i:4} {l}"); } }
    }
    if scn.proc_replay && out.harness_error.is_none() {
      let base = log_lines();
      out.stats.hit("replay_variant_second_process");
      match replay_in_second_process(scn) {
        Ok(d) => {
          if d != digest(&base) {
            out.violations.push(crate::common::Violation::new(&["C16"], "replay-diverged-process", 0, format!("replaying the history in a second process with OS-random hash seeds produced another event log (digest {d:016x} vs {:016x}, {} events here)", digest(&base), base.len())));
          }
        }
        Err(e) => { out.harness_error = Some(format!("second-process replay failed: {e}")); }
      }
      // Restore this process's log for the variants below.
      let mut s0 = scn.clone(); s0.replays = 0; s0.proc_replay = false;
      let mut r = run::Runner::new(&s0, prop); r.run(); drop(r);
    }
    if scn.replays > 0 && out.harness_error.is_none() {
      let base = log_lines();
      let base_digest = digest(&base);
      for variant in (1..=4u8).filter(|v| scn.replays & (1 << (v - 1)) != 0) {
        let lines = replay_variant(scn, prop, variant);
        out.stats.hit(&format!("replay_variant_{variant}"));
        if digest(&lines) != base_digest {
          let pos = base.iter().zip(lines.iter()).position(|(a, b)| a != b).unwrap_or(base.len().min(lines.len()));
          let what = ["", "with another hash seed", "after unrelated instances were built and dropped", "in a fresh thread", "with OS-random hash seeds"][variant as usize];
          out.violations.push(crate::common::Violation::new(&["C16"], "replay-diverged", 0, format!("replaying the history {what} diverged at event {pos}: {:?} vs {:?} (lengths {} and {})", base.get(pos), lines.get(pos), base.len(), lines.len())));
          break;
        }
      }
    }
    out
  }

  fn shrink(&self, scn: &Scenario) -> Vec<Scenario> {
    let mut c: Vec<Scenario> = vec![];
    // Drop steps (from the end first), re-keying faults.
    let n = scn.steps.len();
    for i in (0..n).rev() {
      let mut s = scn.clone();
      s.steps.remove(i);
      s.faults = scn.faults.iter().filter(|(k, _)| **k != i).map(|(k, f)| (if *k > i { *k - 1 } else { *k }, f.clone())).collect();
      c.push(s);
    }
    // Drop faults.
    for k in scn.faults.keys() { let mut s = scn.clone(); s.faults.remove(k); c.push(s); }
    // Drop roots.
    for (i, st) in scn.steps.iter().enumerate() {
      if let Step::TopDown { roots, keep_going } = st {
        if roots.len() > 1 { for j in 0..roots.len() { let mut s = scn.clone(); if let Step::TopDown { roots, .. } = &mut s.steps[i] { roots.remove(j); } c.push(s); } }
        if *keep_going { let mut s = scn.clone(); if let Step::TopDown { keep_going, .. } = &mut s.steps[i] { *keep_going = false; } c.push(s); }
      }
      if let Step::BottomUp { keep_going: true, .. } = st { let mut s = scn.clone(); if let Step::BottomUp { keep_going, .. } = &mut s.steps[i] { *keep_going = false; } c.push(s); }
      if let Step::BottomUp { mid, .. } = st { for j in 0..mid.len() { let mut s = scn.clone(); if let Step::BottomUp { mid, .. } = &mut s.steps[i] { mid.remove(j); } c.push(s); } }
      if let Step::BottomUp { then_require, pre_require, shape, .. } = st {
        for j in 0..then_require.len() { let mut s = scn.clone(); if let Step::BottomUp { then_require, .. } = &mut s.steps[i] { then_require.remove(j); } c.push(s); }
        for j in 0..pre_require.len() { let mut s = scn.clone(); if let Step::BottomUp { pre_require, .. } = &mut s.steps[i] { pre_require.remove(j); } c.push(s); }
        for bit in [1u8, 2, 4] { if shape & bit != 0 { let mut s = scn.clone(); if let Step::BottomUp { shape, .. } = &mut s.steps[i] { *shape &= !bit; } c.push(s); } }
      }
    }
    // Empty whole tasks (requires of them stay; they become constant tasks).
    for t in 0..scn.program.tasks.len() {
      if !scn.program.tasks[t].ops.is_empty() { let mut s = scn.clone(); s.program.tasks[t].ops.clear(); c.push(s); }
    }
    // Drop single ops / flatten ifs (top two levels).
    fn variants(ops: &[Op]) -> Vec<Vec<Op>> {
      let mut out = vec![];
      for i in 0..ops.len() {
        let mut o = ops.to_vec(); o.remove(i); out.push(o);
        if let Op::If { then, els, .. } = &ops[i] {
          for branch in [then, els] { let mut o = ops.to_vec(); o.splice(i..=i, branch.iter().cloned()); out.push(o); }
          for v in variants(then) { let mut o = ops.to_vec(); if let Op::If { then, .. } = &mut o[i] { *then = v; } out.push(o); }
          for v in variants(els) { let mut o = ops.to_vec(); if let Op::If { els, .. } = &mut o[i] { *els = v; } out.push(o); }
        }
        if let Op::Switch { cases, .. } = &ops[i] {
          for (ci, case) in cases.iter().enumerate() {
            for v in variants(case) { let mut o = ops.to_vec(); if let Op::Switch { cases, .. } = &mut o[i] { cases[ci] = v; } out.push(o); }
          }
        }
      }
      out
    }
    for t in 0..scn.program.tasks.len() {
      for v in variants(&scn.program.tasks[t].ops) { let mut s = scn.clone(); s.program.tasks[t].ops = v; c.push(s); }
    }
    // Drop the last task / resource when nothing refers to it.
    fn refs(ops: &[Op], t: usize, r: usize) -> (bool, bool) {
      let (mut rt, mut rr) = (false, false);
      for op in ops {
        match op {
          Op::Require { task, .. } => { if *task == t { rt = true; } }
          Op::Read { res, .. } | Op::Write { res, .. } => { if *res == r { rr = true; } }
          Op::If { then, els, .. } => { let (a, b) = refs(then, t, r); let (c2, d) = refs(els, t, r); rt |= a | c2; rr |= b | d; }
          Op::Switch { res, cases } => { if *res == r { rr = true; } for cs in cases { let (a, b) = refs(cs, t, r); rt |= a; rr |= b; } }
          _ => {}
        }
      }
      (rt, rr)
    }
    {
      let nt = scn.program.tasks.len();
      let nr = scn.program.resources.len();
      if nt > 1 {
        let t = nt - 1;
        let used_by_ops = scn.program.tasks.iter().any(|td| refs(&td.ops, t, usize::MAX).0);
        let used_by_steps = scn.steps.iter().any(|st| match st { Step::TopDown { roots, .. } => roots.contains(&t), Step::BottomUp { then_require, pre_require, .. } => then_require.contains(&t) || pre_require.contains(&t), _ => false });
        if !used_by_ops && !used_by_steps && scn.program.tasks[t].ops.is_empty() {
          let mut s = scn.clone();
          s.program.tasks.pop();
          s.program.writer.retain(|_, w| *w != t);
          c.insert(0, s);
        }
      }
      if nr > 1 {
        let r = nr - 1;
        let used_by_ops = scn.program.tasks.iter().any(|td| refs(&td.ops, usize::MAX, r).1);
        let used_by_steps = scn.steps.iter().any(|st| match st { Step::Change { res, .. } | Step::Touch { res } => *res == r, Step::BottomUp { report: Some(rep), .. } => rep.contains(&r), Step::BottomUp { mid, .. } => mid.iter().any(|(x, _)| *x == r), _ => false });
        let used_by_faults = scn.faults.values().any(|f| f.check_err_res.contains(&r));
        if !used_by_ops && !used_by_steps && !used_by_faults && scn.program.class != Class::V {
          let mut s = scn.clone();
          s.program.resources.pop();
          s.program.writer.remove(&r);
          s.init.retain(|(x, _)| *x != r);
          c.insert(0, s);
        }
      }
    }
    // Drop initial values.
    for i in 0..scn.init.len() { let mut s = scn.clone(); s.init.remove(i); c.push(s); }
    if scn.hash_seed != Some(0) { let mut s = scn.clone(); s.hash_seed = Some(0); c.push(s); }
    let _ = Class::W;
    c
  }

  fn components(&self) -> Value {
    json!({
      "real": ["pie: Pie/Session/BottomUpBuild, top-down and bottom-up contexts, store, dependencies, trait objects, CompositeTracker, EventTracker, built-in output checkers (through a delegating instrumented checker)", "pie_graph::DAG", "hashlink", "slotmap"],
      "stub": ["task programs (script interpreter implementing pie::Task for 5 task type families)", "simulated resource families RA/RB implementing pie::Resource with the world stored in pie's ResourceState", "instrumented resource/output checkers (stamps carry unique serial numbers)", "hasher of Store/DAG/Queue/session sets: seeded through the guarded seam", "the outside party that edits resources between sessions"],
      "reference_model": "from-scratch interpreter (Clean) + ledger of latest executions derived from task-side and checker-side logs",
    })
  }
}

fn log_lines() -> Vec<String> { world::with_sim(|s| s.log.iter().map(|e| format!("{:?}", e)).collect()) }

fn digest(lines: &[String]) -> u64 {
  let mut h = 0xcbf2_9ce4_8422_2325u64;
  for l in lines { for b in l.bytes() { fnv(&mut h, b as u64); } fnv(&mut h, 0xFFFF); }
  h
}

/// Replays `scn` under a perturbation that must not matter, returning the complete event log.
fn replay_variant(scn: &Scenario, prop: &str, variant: u8) -> Vec<String> {
  let mut s2 = scn.clone();
  s2.replays = 0;
  s2.proc_replay = false;
  match variant {
    1 => { s2.hash_seed = Some(scn.hash_seed.unwrap_or(0) ^ 0x5DEECE66D_u64.wrapping_mul(variant as u64 + 1) ^ 0xA5A5_0000_1111); }
    2 => {
      // Unrelated instances first (same thread, so allocator state and per-thread hash counters have moved).
      let mut rng = Rng::new(scn.hash_seed.unwrap_or(7) ^ 0xDEAD_BEEF);
      for k in 0..6 {
        // Unrelated instances of several kinds: well-formed; ending in a diagnosed cycle; bottom-up sessions with
        // dropped builds, builds aborted by crashes and sessions that go on after an abort. Whatever they leave behind
        // outside their own instance (thread-local scratch space, pooled allocations, ...) must not matter.
        let mut cfg = GenCfg::default();
        if k >= 4 { cfg.bottom_up = 80; cfg.td_between = true; cfg.in_session = true; cfg.crash = true; cfg.same_session = k == 5; cfg.big = true; }
        let program = if k == 0 || k >= 4 { gen_program_w(&mut rng, &cfg) } else { gen_program_x(&mut rng, &cfg, 3) };
        let (init, steps, faults) = gen_history(&mut rng, &program, &cfg);
        let other = Scenario { hash_seed: Some(rng.next()), program, init, steps, faults, replays: 0, proc_replay: false };
        let mut r = run::Runner::new(&other, prop);
        r.run();
      }
      s2.hash_seed = Some(scn.hash_seed.unwrap_or(0).rotate_left(17) ^ 0x1234_5678);
    }
    3 => {
      let s3 = s2.clone();
      let prop = prop.to_string();
      return std::thread::spawn(move || { let mut r = run::Runner::new(&s3, &prop); r.run(); drop(r); log_lines() }).join().unwrap_or_default();
    }
    _ => { s2.hash_seed = None; }
  }
  let mut r = run::Runner::new(&s2, prop);
  r.run();
  drop(r);
  log_lines()
}

pub fn log_lines_pub() -> Vec<String> { log_lines() }

/// Runs the scenario in a fresh process (`sim digest-scn <file>`) with OS-random hash seeds; returns its log digest.
fn replay_in_second_process(scn: &Scenario) -> Result<u64, String> {
  use std::sync::atomic::{AtomicU64, Ordering};
  static N: AtomicU64 = AtomicU64::new(0);
  let mut s2 = scn.clone();
  s2.replays = 0;
  s2.proc_replay = false;
  s2.hash_seed = None;
  let base = if std::path::Path::new("/dev/shm").is_dir() { std::path::PathBuf::from("/dev/shm") } else { std::env::temp_dir() };
  let path = base.join(format!("verif-scn-{}-{}.json", std::process::id(), N.fetch_add(1, Ordering::Relaxed)));
  std::fs::write(&path, serde_json::to_string(&s2).map_err(|e| e.to_string())?).map_err(|e| e.to_string())?;
  let exe = std::env::current_exe().map_err(|e| e.to_string())?;
  let out = std::process::Command::new(exe).arg("digest-scn").arg(&path).output();
  let _ = std::fs::remove_file(&path);
  let out = out.map_err(|e| e.to_string())?;
  let text = String::from_utf8_lossy(&out.stdout);
  u64::from_str_radix(text.trim(), 16).map_err(|e| format!("{e}: {:?} {:?}", text, String::from_utf8_lossy(&out.stderr)))
}

pub fn digest_scenario_file(path: &str) -> i32 {
  let Ok(text) = std::fs::read_to_string(path) else { return 2; };
  let Ok(scn) = serde_json::from_str::<Scenario>(&text) else { return 2; };
  let mut r = run::Runner::new(&scn, "C16");
  r.run();
  drop(r);
  println!("{:016x}", digest(&log_lines()));
  0
}
