//! Full-fidelity recording tracker.
use std::error::Error;
use std::fmt::Debug;
use std::rc::Rc;
use std::sync::Arc;

use pie::task::AlwaysConsistent;
use pie::tracker::Tracker;
use pie::trait_object::{KeyObj, ValueObj};

use super::interp::T;
use super::world::*;

#[derive(Clone, Copy, Debug, PartialEq, Eq, Hash, PartialOrd, Ord)]
pub enum TK {
  BuildStart, BuildEnd, RequireStart, RequireEnd, ReadStart, ReadEnd, WriteStart, WriteEnd,
  CheckTaskStart, CheckTaskEnd, CheckResourceStart, CheckResourceEnd, ExecuteStart, ExecuteEnd,
  SchedByTaskStart, CheckReqTaskStart, CheckReqTaskEnd, SchedByTaskEnd,
  SchedByResStart, CheckReadResStart, CheckReadResEnd, SchedByResEnd, ScheduleTask,
}

impl TK {
  /// (is_start, is_end, group) — group pairs starts with ends.
  pub fn nesting(&self) -> (bool, bool, u8) {
    use TK::*;
    match self {
      BuildStart => (true, false, 0), BuildEnd => (false, true, 0),
      RequireStart => (true, false, 1), RequireEnd => (false, true, 1),
      ReadStart => (true, false, 2), ReadEnd => (false, true, 2),
      WriteStart => (true, false, 3), WriteEnd => (false, true, 3),
      CheckTaskStart => (true, false, 4), CheckTaskEnd => (false, true, 4),
      CheckResourceStart => (true, false, 5), CheckResourceEnd => (false, true, 5),
      ExecuteStart => (true, false, 6), ExecuteEnd => (false, true, 6),
      SchedByTaskStart => (true, false, 7), SchedByTaskEnd => (false, true, 7),
      CheckReqTaskStart => (true, false, 8), CheckReqTaskEnd => (false, true, 8),
      SchedByResStart => (true, false, 9), SchedByResEnd => (false, true, 9),
      CheckReadResStart => (true, false, 10), CheckReadResEnd => (false, true, 10),
      ScheduleTask => (false, false, 11),
    }
  }
}

#[derive(Clone, Debug, PartialEq, Eq, Hash)]
pub enum KeyR { None, Task(TaskKey), Res(ResKey), Other(String) }

#[derive(Clone, Debug, PartialEq, Eq, Hash)]
pub enum ValR { None, RChk(RChk), RStamp(RStamp), OChk(OChk), OStamp(OStamp), Out(Out), Always, Unit, Other(String) }

#[derive(Clone, Debug, PartialEq, Eq, Hash)]
pub enum IncR { None, Consistent, Inconsistent(String), Error(String) }

#[derive(Clone, Debug, PartialEq, Eq, Hash)]
pub struct TrkEv { pub kind: TK, pub key: KeyR, pub chk: ValR, pub stamp: ValR, pub out: ValR, pub inc: IncR }

pub fn render_key(k: &dyn KeyObj) -> KeyR {
  let a = k.as_any();
  if let Some(t) = a.downcast_ref::<T<0>>() { return KeyR::Task(TaskKey { fam: 0, id: t.0 }); }
  if let Some(t) = a.downcast_ref::<T<1>>() { return KeyR::Task(TaskKey { fam: 1, id: t.0 }); }
  if let Some(t) = a.downcast_ref::<Box<T<2>>>() { return KeyR::Task(TaskKey { fam: 2, id: t.0 }); }
  if let Some(t) = a.downcast_ref::<Rc<T<3>>>() { return KeyR::Task(TaskKey { fam: 3, id: t.0 }); }
  if let Some(t) = a.downcast_ref::<Arc<T<4>>>() { return KeyR::Task(TaskKey { fam: 4, id: t.0 }); }
  if let Some(t) = a.downcast_ref::<Box<T<0>>>() { return KeyR::Task(TaskKey { fam: 5, id: t.0 }); }
  if let Some(t) = a.downcast_ref::<Rc<T<0>>>() { return KeyR::Task(TaskKey { fam: 6, id: t.0 }); }
  if let Some(r) = a.downcast_ref::<R<0>>() { return KeyR::Res(ResKey { fam: 0, id: r.0 }); }
  if let Some(r) = a.downcast_ref::<R<1>>() { return KeyR::Res(ResKey { fam: 1, id: r.0 }); }
  if let Some(r) = a.downcast_ref::<MK<2>>() { return KeyR::Res(ResKey { fam: 2, id: r.0 }); }
  if let Some(r) = a.downcast_ref::<MK<3>>() { return KeyR::Res(ResKey { fam: 3, id: r.0 }); }
  if let Some(p) = a.downcast_ref::<std::path::PathBuf>() { if let Some(id) = file_id(p) { return KeyR::Res(ResKey { fam: 4, id }); } }
  KeyR::Other(format!("{:?}", k))
}

/// Renders a (checker, stamp) pair; a zero-sized-stamp checker is shown as the ordinary checker / stamp pair with the
/// serial that the checker carries (the harness identifies dependencies by serial).
pub fn render_pair(c: &dyn ValueObj, s: &dyn ValueObj) -> (ValR, ValR) {
  if let Some(z) = c.as_any().downcast_ref::<super::world::ZChk>() {
    let is_unit_stamp = s.as_any().downcast_ref::<super::world::ZStamp>().is_some();
    return (ValR::RChk(RChk { kind: z.kind, tag: 0 }), if is_unit_stamp { ValR::RStamp(RStamp { serial: z.serial, proj: None, real: super::world::RealStamp::None }) } else { render_val(s) });
  }
  if let Some(z) = c.as_any().downcast_ref::<super::world::ZOChk>() {
    let is_unit_stamp = s.as_any().downcast_ref::<super::world::ZStamp>().is_some();
    return (ValR::OChk(OChk { kind: z.kind, tag: 0 }), if is_unit_stamp { ValR::OStamp(OStamp { serial: z.serial, val: super::world::OVal::Unit }) } else { render_val(s) });
  }
  (render_val(c), render_val(s))
}

pub fn render_val(v: &dyn ValueObj) -> ValR {
  let a = v.as_any();
  if let Some(z) = a.downcast_ref::<super::world::ZChk>() { return ValR::RChk(RChk { kind: z.kind, tag: 0 }); }
  if let Some(z) = a.downcast_ref::<super::world::ZOChk>() { return ValR::OChk(OChk { kind: z.kind, tag: 0 }); }
  if let Some(x) = a.downcast_ref::<RStamp>() { return ValR::RStamp(*x); }
  if let Some(x) = a.downcast_ref::<RChk>() { return ValR::RChk(*x); }
  if let Some(x) = a.downcast_ref::<OStamp>() { return ValR::OStamp(*x); }
  if let Some(x) = a.downcast_ref::<OChk>() { return ValR::OChk(*x); }
  if let Some(x) = a.downcast_ref::<Out>() { return ValR::Out(*x); }
  if a.downcast_ref::<AlwaysConsistent>().is_some() { return ValR::Always; }
  if a.downcast_ref::<()>().is_some() { return ValR::Unit; }
  ValR::Other(format!("{:?}", v))
}

fn inc_opt(i: Option<&dyn Debug>) -> IncR { match i { None => IncR::Consistent, Some(d) => IncR::Inconsistent(format!("{:?}", d)) } }
fn inc_res(i: Result<Option<&dyn Debug>, &dyn Error>) -> IncR {
  match i { Ok(None) => IncR::Consistent, Ok(Some(d)) => IncR::Inconsistent(format!("{:?}", d)), Err(e) => IncR::Error(format!("{}", e)) }
}

/// Recording tracker. The instance with `global = true` also appends to the unified event log.
#[derive(Default)]
pub struct Rec { pub events: Vec<TrkEv>, pub global: bool }

impl Rec {
  pub fn new(global: bool) -> Self { Rec { events: vec![], global } }
  #[inline]
  fn push(&mut self, kind: TK, key: KeyR, chk: ValR, stamp: ValR, out: ValR, inc: IncR) {
    let ev = TrkEv { kind, key, chk, stamp, out, inc };
    if self.global { log(Ev::Trk(ev.clone())); }
    self.events.push(ev);
  }
}

impl Tracker for Rec {
  fn build_start(&mut self) { self.push(TK::BuildStart, KeyR::None, ValR::None, ValR::None, ValR::None, IncR::None); }
  fn build_end(&mut self) { self.push(TK::BuildEnd, KeyR::None, ValR::None, ValR::None, ValR::None, IncR::None); }
  fn require_start(&mut self, t: &dyn KeyObj, c: &dyn ValueObj) { self.push(TK::RequireStart, render_key(t), render_val(c), ValR::None, ValR::None, IncR::None); }
  fn require_end(&mut self, t: &dyn KeyObj, c: &dyn ValueObj, s: &dyn ValueObj, o: &dyn ValueObj) { self.push(TK::RequireEnd, render_key(t), { let p = render_pair(c, s); p.0 }, render_pair(c, s).1, render_val(o), IncR::None); }
  fn read_start(&mut self, r: &dyn KeyObj, c: &dyn ValueObj) { self.push(TK::ReadStart, render_key(r), render_val(c), ValR::None, ValR::None, IncR::None); }
  fn read_end(&mut self, r: &dyn KeyObj, c: &dyn ValueObj, s: &dyn ValueObj) { self.push(TK::ReadEnd, render_key(r), { let p = render_pair(c, s); p.0 }, render_pair(c, s).1, ValR::None, IncR::None); }
  fn write_start(&mut self, r: &dyn KeyObj, c: &dyn ValueObj) { self.push(TK::WriteStart, render_key(r), render_val(c), ValR::None, ValR::None, IncR::None); }
  fn write_end(&mut self, r: &dyn KeyObj, c: &dyn ValueObj, s: &dyn ValueObj) { self.push(TK::WriteEnd, render_key(r), { let p = render_pair(c, s); p.0 }, render_pair(c, s).1, ValR::None, IncR::None); }
  fn check_task_start(&mut self, t: &dyn KeyObj, c: &dyn ValueObj, s: &dyn ValueObj) { self.push(TK::CheckTaskStart, render_key(t), { let p = render_pair(c, s); p.0 }, render_pair(c, s).1, ValR::None, IncR::None); }
  fn check_task_end(&mut self, t: &dyn KeyObj, c: &dyn ValueObj, s: &dyn ValueObj, i: Option<&dyn Debug>) { self.push(TK::CheckTaskEnd, render_key(t), { let p = render_pair(c, s); p.0 }, render_pair(c, s).1, ValR::None, inc_opt(i)); }
  fn check_resource_start(&mut self, r: &dyn KeyObj, c: &dyn ValueObj, s: &dyn ValueObj) { self.push(TK::CheckResourceStart, render_key(r), { let p = render_pair(c, s); p.0 }, render_pair(c, s).1, ValR::None, IncR::None); }
  fn check_resource_end(&mut self, r: &dyn KeyObj, c: &dyn ValueObj, s: &dyn ValueObj, i: Result<Option<&dyn Debug>, &dyn Error>) { self.push(TK::CheckResourceEnd, render_key(r), { let p = render_pair(c, s); p.0 }, render_pair(c, s).1, ValR::None, inc_res(i)); }
  fn execute_start(&mut self, t: &dyn KeyObj) {
    let key = render_key(t);
    if self.global { if let KeyR::Task(k) = &key { let k = *k; with_sim(|s| s.next_exec_key = Some(k)); } }
    self.push(TK::ExecuteStart, key, ValR::None, ValR::None, ValR::None, IncR::None);
  }
  fn execute_end(&mut self, t: &dyn KeyObj, o: &dyn ValueObj) { self.push(TK::ExecuteEnd, render_key(t), ValR::None, ValR::None, render_val(o), IncR::None); }
  fn schedule_affected_by_task_start(&mut self, t: &dyn KeyObj) { self.push(TK::SchedByTaskStart, render_key(t), ValR::None, ValR::None, ValR::None, IncR::None); }
  fn check_task_require_task_start(&mut self, t: &dyn KeyObj, c: &dyn ValueObj, s: &dyn ValueObj) { self.push(TK::CheckReqTaskStart, render_key(t), { let p = render_pair(c, s); p.0 }, render_pair(c, s).1, ValR::None, IncR::None); }
  fn check_task_require_task_end(&mut self, t: &dyn KeyObj, c: &dyn ValueObj, s: &dyn ValueObj, i: Option<&dyn Debug>) { self.push(TK::CheckReqTaskEnd, render_key(t), { let p = render_pair(c, s); p.0 }, render_pair(c, s).1, ValR::None, inc_opt(i)); }
  fn schedule_affected_by_task_end(&mut self, t: &dyn KeyObj) { self.push(TK::SchedByTaskEnd, render_key(t), ValR::None, ValR::None, ValR::None, IncR::None); }
  fn schedule_affected_by_resource_start(&mut self, r: &dyn KeyObj) { self.push(TK::SchedByResStart, render_key(r), ValR::None, ValR::None, ValR::None, IncR::None); }
  fn check_task_read_resource_start(&mut self, t: &dyn KeyObj, c: &dyn ValueObj, s: &dyn ValueObj) { self.push(TK::CheckReadResStart, render_key(t), { let p = render_pair(c, s); p.0 }, render_pair(c, s).1, ValR::None, IncR::None); }
  fn check_task_read_resource_end(&mut self, t: &dyn KeyObj, c: &dyn ValueObj, s: &dyn ValueObj, i: Result<Option<&dyn Debug>, &dyn Error>) { self.push(TK::CheckReadResEnd, render_key(t), { let p = render_pair(c, s); p.0 }, render_pair(c, s).1, ValR::None, inc_res(i)); }
  fn schedule_affected_by_resource_end(&mut self, r: &dyn KeyObj) { self.push(TK::SchedByResEnd, render_key(r), ValR::None, ValR::None, ValR::None, IncR::None); }
  fn schedule_task(&mut self, t: &dyn KeyObj) { self.push(TK::ScheduleTask, render_key(t), ValR::None, ValR::None, ValR::None, IncR::None); }
}
