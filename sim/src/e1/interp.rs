//! Task families and the script interpreter (runs under pie's real contexts).
use std::fmt::{self, Debug};
use std::rc::Rc;
use std::sync::Arc;

use pie::{Context, Session, Task};

use super::prog::{Op, Program, NVALS};
use super::world::*;

/// Task families share representation, hash and Debug text; only the type differs.
#[derive(Clone, PartialEq, Eq, Hash)]
pub struct T<const F: u8>(pub u32);
impl<const F: u8> Debug for T<F> {
  fn fmt(&self, f: &mut fmt::Formatter<'_>) -> fmt::Result { write!(f, "T({})", self.0) }
}

impl<const F: u8> Task for T<F> {
  type Output = Out;
  fn execute<C: Context>(&self, context: &mut C) -> Out { execute(F, self.0, context) }
}

pub const DEPTH_GUARD_MSG: &str = "SIM-DEPTH-GUARD";
pub const EXEC_GUARD_MSG: &str = "SIM-EXEC-GUARD";
pub const TASK_PANIC_MSG: &str = "SIM-TASK-PANIC";

#[inline]
pub fn fold(acc: Val, obs: Val) -> Val { (acc * 31 + obs + 7).rem_euclid(1_000_003) }

#[inline]
pub fn out_of(acc: Val) -> Out {
  if acc % 5 == 0 { Err((acc / 5 % 2) as u8) } else { Ok((acc / 5 % 3) as u8) }
}

#[inline]
pub fn write_val(acc: Val, k: Val) -> Option<Val> {
  let v = (acc + k).rem_euclid(NVALS + 1);
  if v == NVALS { None } else { Some(v) }
}

pub fn require_root(session: &mut Session, key: TaskKey) -> Out {
  match key.fam {
    0 => session.require(&T::<0>(key.id)),
    1 => session.require(&T::<1>(key.id)),
    2 => session.require(&Box::new(T::<2>(key.id))),
    3 => session.require(&Rc::new(T::<3>(key.id))),
    4 => session.require(&Arc::new(T::<4>(key.id))),
    5 => session.require(&Box::new(T::<0>(key.id))),
    _ => session.require(&Rc::new(T::<0>(key.id))),
  }
}

fn require_task<C: Context>(c: &mut C, key: TaskKey, chk: OChk) -> Out {
  match key.fam {
    0 => c.require(&T::<0>(key.id), chk),
    1 => c.require(&T::<1>(key.id), chk),
    2 => c.require(&Box::new(T::<2>(key.id)), chk),
    3 => c.require(&Rc::new(T::<3>(key.id)), chk),
    4 => c.require(&Arc::new(T::<4>(key.id)), chk),
    5 => c.require(&Box::new(T::<0>(key.id)), chk),
    _ => c.require(&Rc::new(T::<0>(key.id)), chk),
  }
}

fn require_task_z<C: Context>(c: &mut C, key: TaskKey, chk: ZOChk) -> Out {
  match key.fam {
    0 => c.require(&T::<0>(key.id), chk),
    1 => c.require(&T::<1>(key.id), chk),
    2 => c.require(&Box::new(T::<2>(key.id)), chk),
    3 => c.require(&Rc::new(T::<3>(key.id)), chk),
    4 => c.require(&Arc::new(T::<4>(key.id)), chk),
    5 => c.require(&Box::new(T::<0>(key.id)), chk),
    _ => c.require(&Rc::new(T::<0>(key.id)), chk),
  }
}

fn read_res<C: Context>(c: &mut C, key: ResKey, chk: RChk) -> Result<Option<Val>, SimErr> {
  match key.fam {
    0 => { let mut r = c.read(&R::<0>(key.id), chk)?; Ok(r.take()) }
    1 => { let mut r = c.read(&R::<1>(key.id), chk)?; Ok(r.take()) }
    2 => { let r = c.read(&MK::<2>(key.id), chk)?; Ok(r.copied()) }
    3 => { let r = c.read(&MK::<3>(key.id), chk)?; Ok(r.copied()) }
    _ => {
      use std::io::{Read, Seek};
      let path = file_path(key.id);
      let mut r = c.read(&path, chk)?;
      if r.is_directory() { return Ok(Some(-1)); }
      let Some(f) = r.as_file() else { return Ok(None); };
      let fresh = f.stream_position().map(|p| p == 0).unwrap_or(false);
      log(Ev::ReaderUsed { res: key, reader: 0, fresh });
      let mut text = String::new();
      let _ = f.read_to_string(&mut text);
      Ok(Some(text.trim().parse().unwrap_or(-2)))
    }
  }
}

/// Read with a checker whose stamp is zero-sized (simulated families only).
fn read_res_z<C: Context>(c: &mut C, key: ResKey, chk: ZChk) -> Result<Option<Val>, SimErr> {
  match key.fam {
    0 => { let mut r = c.read(&R::<0>(key.id), chk)?; Ok(r.take()) }
    _ => { let mut r = c.read(&R::<1>(key.id), chk)?; Ok(r.take()) }
  }
}

fn write_fn(w: &mut SimWriter<'_>, key: ResKey, val: Option<Val>) -> Result<(), SimErr> {
  log(Ev::WriteFnStart { res: key });
  tick();
  w.set(val);
  tick();
  log(Ev::WriteFnEnd { res: key, val });
  Ok(())
}

fn map_write_fn<const F: u8>(w: &mut pie::resource::map::MapWriter<'_, MK<F>>, key: ResKey, val: Option<Val>) -> Result<(), std::convert::Infallible> {
  log(Ev::WriteFnStart { res: key });
  tick();
  let old = w.get().copied();
  match val { Some(v) => { w.insert(v); } None => { if let std::collections::hash_map::Entry::Occupied(e) = w.entry() { e.remove(); } } }
  log(Ev::ResSet { res: key, old, new: val });
  tick();
  log(Ev::WriteFnEnd { res: key, val });
  Ok(())
}

fn file_write_fn(f: &mut std::fs::File, key: ResKey, val: Option<Val>, old: Option<Val>) -> Result<(), pie::resource::file::FsError> {
  use std::io::Write;
  log(Ev::WriteFnStart { res: key });
  tick();
  match val {
    Some(v) => { write!(f, "{v}").map_err(pie::resource::file::FsError::from)?; f.flush().map_err(pie::resource::file::FsError::from)?; }
    None => { let _ = std::fs::remove_file(file_path(key.id)); }
  }
  log(Ev::ResSet { res: key, old, new: val });
  tick();
  log(Ev::WriteFnEnd { res: key, val });
  Ok(())
}

fn write_res<C: Context>(c: &mut C, key: ResKey, chk: RChk, val: Option<Val>, via: bool) -> Result<(), SimErr> {
  macro_rules! go {
    ($f:literal) => {{
      let res = R::<$f>(key.id);
      if via {
        {
          let mut w = c.create_writer(&res)?;
          write_fn(&mut w, key, val)?;
        }
        c.written_to(&res, chk)
      } else {
        c.write(&res, chk, |w| write_fn(w, key, val))
      }
    }};
  }
  macro_rules! go_map {
    ($f:literal) => {{
      let res = MK::<$f>(key.id);
      if via {
        {
          let mut w = c.create_writer(&res).unwrap();
          map_write_fn(&mut w, key, val).unwrap();
        }
        c.written_to(&res, chk)
      } else {
        c.write(&res, chk, |w| map_write_fn(w, key, val))
      }
    }};
  }
  match key.fam {
    0 => go!(0),
    1 => go!(1),
    2 => go_map!(2),
    3 => go_map!(3),
    _ => {
      let path = file_path(key.id);
      let old = file_val(&path);
      if via {
        {
          log(Ev::ResWriteOpen { res: key });
          let mut f = c.create_writer(&path).map_err(|_| SimErr(6100))?;
          file_write_fn(&mut f, key, val, old).map_err(|_| SimErr(6101))?;
        }
        c.written_to(&path, chk)
      } else {
        c.write(&path, chk, |f| { log(Ev::ResWriteOpen { res: key }); file_write_fn(f, key, val, old) })
      }
    }
  }
}

struct ExecState { acc: Val, pos: u32 }

fn run_ops<C: Context>(c: &mut C, prog: &Program, t: Tid, n: u32, ops: &[Op], st: &mut ExecState) {
  for op in ops {
    tick();
    match op {
      Op::Nop => {}
      Op::Panic => panic!("{}", TASK_PANIC_MSG),
      Op::If { m, modulus, then, els } => {
        if st.acc.rem_euclid(*modulus) == *m { run_ops(c, prog, t, n, then, st) } else { run_ops(c, prog, t, n, els, st) }
      }
      Op::Read { res, chk } => {
        let key = prog.resources[*res];
        let pos = st.pos;
        st.pos += 1;
        let frame = OpFrame { t, n, pos, op: OpK::Read, target: Target::Res(key) };
        with_sim(|s| { s.op_stack.push(frame); s.log.push(Ev::OpStart { t, n, pos, op: OpK::Read, target: frame.target }); });
        let r = if chk.is_zst() && key.fam < 2 { read_res_z(c, key, ZChk { kind: *chk, serial: new_serial_pub() }) } else { read_res(c, key, RChk { kind: *chk, tag: 0 }) };
        let (obs, ok) = match r { Ok(v) => (chk.observe(v), true), Err(e) => (1000 + e.0 as Val, false) };
        with_sim(|s| { s.op_stack.pop(); s.log.push(Ev::OpEnd { t, n, pos, obs, ok }); });
        st.acc = fold(st.acc, obs);
      }
      Op::Switch { res, cases } => {
        let key = prog.resources[*res];
        let pos = st.pos;
        st.pos += 1;
        let frame = OpFrame { t, n, pos, op: OpK::Read, target: Target::Res(key) };
        with_sim(|s| { s.op_stack.push(frame); s.log.push(Ev::OpStart { t, n, pos, op: OpK::Read, target: frame.target }); });
        let r = read_res(c, key, RChk { kind: RK::Exact, tag: 0 });
        let (obs, ok, val) = match r { Ok(v) => (RK::Exact.observe(v), true, v), Err(e) => (1000 + e.0 as Val, false, None) };
        with_sim(|s| { s.op_stack.pop(); s.log.push(Ev::OpEnd { t, n, pos, obs, ok }); });
        st.acc = fold(st.acc, obs);
        if !cases.is_empty() {
          let case = val.map(|v| v.rem_euclid(cases.len() as Val) as usize).unwrap_or(0);
          run_ops(c, prog, t, n, &cases[case], st);
        }
      }
      Op::Require { task, chk } => {
        let key = prog.tasks[*task].key;
        let pos = st.pos;
        st.pos += 1;
        let frame = OpFrame { t, n, pos, op: OpK::Require, target: Target::Task(*task) };
        with_sim(|s| { s.op_stack.push(frame); s.log.push(Ev::OpStart { t, n, pos, op: OpK::Require, target: frame.target }); });
        let out = if chk.is_zst() { require_task_z(c, key, ZOChk { kind: *chk, serial: new_serial_pub() }) } else { require_task(c, key, OChk { kind: *chk, tag: 0 }) };
        let obs = chk.observe(&out);
        with_sim(|s| { s.op_stack.pop(); s.log.push(Ev::OpEnd { t, n, pos, obs: out_code(&out), ok: true }); });
        st.acc = fold(st.acc, obs);
      }
      Op::Write { res, chk, k, via } => {
        let key = prog.resources[*res];
        let pos = st.pos;
        st.pos += 1;
        let val = write_val(st.acc, *k);
        let opk = if *via { OpK::WriteVia } else { OpK::Write };
        let frame = OpFrame { t, n, pos, op: opk, target: Target::Res(key) };
        with_sim(|s| { s.op_stack.push(frame); s.log.push(Ev::OpStart { t, n, pos, op: opk, target: frame.target }); });
        let r = write_res(c, key, RChk { kind: *chk, tag: 0 }, val, *via);
        let (obs, ok) = match r { Ok(()) => (0, true), Err(e) => (1000 + e.0 as Val, false) };
        with_sim(|s| { s.op_stack.pop(); s.log.push(Ev::OpEnd { t, n, pos, obs, ok }); });
        if !ok { st.acc = fold(st.acc, obs); }
      }
    }
  }
}

pub fn execute<C: Context>(fam: u8, id: u32, c: &mut C) -> Out {
  let bottom_up = std::any::type_name::<C>().contains("BottomUp");
  let (prog, t, n, depth, execs) = with_sim(|s| {
    let prog = s.prog.clone().expect("no program installed");
    // Wrapper families around the inner type of family 0 run the same `execute`; the tracker announced which key runs.
    let announced = s.next_exec_key.take().filter(|k| k.id == id && (k.fam == fam || (fam == 0 && (k.fam == 5 || k.fam == 6))));
    let key = announced.unwrap_or(TaskKey { fam, id });
    let t = prog.task_index(key).or_else(|| prog.task_index(TaskKey { fam, id })).expect("execution of a task that is not in the program");
    s.exec_count[t] += 1;
    let n = s.exec_count[t];
    s.exec_stack.push((t, n));
    s.execs_this_session += 1;
    s.log.push(Ev::ExecStart { t, n, bottom_up });
    (prog, t, n, s.exec_stack.len(), s.execs_this_session)
  });
  if depth > prog.tasks.len() + 2 {
    with_sim(|s| s.depth_guard_fired = true);
    panic!("{}", DEPTH_GUARD_MSG);
  }
  if execs > 6 * prog.tasks.len() as u64 + 12 {
    with_sim(|s| s.depth_guard_fired = true);
    panic!("{}", EXEC_GUARD_MSG);
  }
  tick();
  let mut st = ExecState { acc: t as Val + 1, pos: 0 };
  run_ops(c, &prog, t, n, &prog.tasks[t].ops, &mut st);
  tick();
  let out = out_of(st.acc);
  with_sim(|s| { s.exec_stack.pop(); s.log.push(Ev::ExecEnd { t, n, out }); });
  out
}
