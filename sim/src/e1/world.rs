//! Simulated resource world, instrumented checkers, and the unified event log of E1.
use std::cell::RefCell;
use std::collections::BTreeMap;
use std::fmt::{self, Debug};
use std::rc::Rc;

use pie::task::{AlwaysConsistent, EqualsChecker, ErrEqualsChecker, OkEqualsChecker, ResultChecker};
use pie::{OutputChecker, Resource, ResourceChecker, ResourceState};
use serde::{Deserialize, Serialize};

use super::prog::Program;

pub type Out = Result<u8, u8>;
pub type Val = i64;
pub type Tid = usize;

/// Resource key: (family, id). Families: 0 = RA, 1 = RB (simulated), 2 = MK<2>, 3 = MK<3> (pie's map resource),
/// 4 = PathBuf (pie's file resource, file `f<id>` in a private directory).
#[derive(Clone, Copy, Debug, PartialEq, Eq, PartialOrd, Ord, Hash, Serialize, Deserialize)]
pub struct ResKey { pub fam: u8, pub id: u32 }

/// Task key: (family, id). Families: 0 = TA, 1 = TB, 2 = Box<TC>, 3 = Rc<TD>, 4 = Arc<TE>, 5 = Box<TA>, 6 = Rc<TA>
/// (wrappers around the very type of family 0).
#[derive(Clone, Copy, Debug, PartialEq, Eq, PartialOrd, Ord, Hash, Serialize, Deserialize)]
pub struct TaskKey { pub fam: u8, pub id: u32 }

#[derive(Clone, Copy, Debug, PartialEq, Eq, Default)]
pub struct Cell { pub val: Option<Val>, pub ver: u64 }

// ---------------------------------------------------------------------------------------------------------------------
// Checker kinds

/// Resource checker kinds of the simulated resource families.
#[derive(Clone, Copy, Debug, PartialEq, Eq, PartialOrd, Ord, Hash, Serialize, Deserialize)]
pub enum RK {
  Exact, Parity, Exists, Version, Thresh(i64), Always,
  /// Checkers whose stamp type is zero-sized (all the information is in the checker): `ZVol` is never consistent (the
  /// task may observe the exact value), `ZMost(n)` is inconsistent exactly while the current value exceeds `n` (the
  /// task observes nothing).
  ZVol, ZMost(i64),
}

impl RK {
  /// What the checker compares.
  pub fn stamp_of(&self, c: Cell) -> Option<Val> {
    match self {
      RK::Exact => c.val,
      RK::Parity => c.val.map(|v| v.rem_euclid(2)),
      RK::Exists => c.val.map(|_| 1),
      RK::Version => Some(c.ver as Val),
      RK::Thresh(k) => c.val.map(|v| (v >= *k) as Val),
      RK::Always => Some(0),
      RK::ZVol | RK::ZMost(_) => None,
    }
  }
  /// Zero-sized-stamp kinds.
  pub fn is_zst(&self) -> bool { matches!(self, RK::ZVol | RK::ZMost(_)) }
  /// Verdict of a zero-sized-stamp kind for the current cell.
  pub fn zst_inconsistent(&self, c: Cell) -> bool { match self { RK::ZVol => true, RK::ZMost(n) => c.val.map(|v| v > *n).unwrap_or(false), _ => false } }
  /// What a task may observe of a value it accessed with this checker (must be determined by the stamp).
  pub fn observe(&self, v: Option<Val>) -> Val {
    match self {
      RK::Exact | RK::Version | RK::ZVol => v.map(|v| v + 1).unwrap_or(0),
      RK::ZMost(_) => 0,
      RK::Parity => v.map(|v| v.rem_euclid(2) + 1).unwrap_or(0),
      RK::Exists => v.is_some() as Val,
      RK::Thresh(k) => v.map(|v| (v >= *k) as Val + 1).unwrap_or(0),
      RK::Always => 0,
    }
  }
  pub fn is_exact(&self) -> bool { matches!(self, RK::Exact) }
  /// A stamp of `self` (the writer's checker) determines what a reader using `reader` may observe.
  pub fn determines_obs(&self, reader: &RK) -> bool {
    if matches!(reader, RK::Always | RK::ZMost(_)) { return true; }
    if matches!(reader, RK::ZVol) { return matches!(self, RK::Exact | RK::Version); }
    match self {
      RK::Exact | RK::Version => true,
      RK::Parity => matches!(reader, RK::Parity | RK::Exists),
      RK::Thresh(k) => *reader == RK::Thresh(*k) || matches!(reader, RK::Exists),
      RK::Exists => matches!(reader, RK::Exists),
      RK::Always | RK::ZVol | RK::ZMost(_) => false,
    }
  }
}

/// Output checker kinds.
#[derive(Clone, Copy, Debug, PartialEq, Eq, PartialOrd, Ord, Hash, Serialize, Deserialize)]
pub enum OK {
  Equals, OkEq, ErrEq, ResultC, Always, Parity,
  /// Output checkers whose stamp type is zero-sized: `ZNever` is never consistent (the requirer may observe the whole
  /// output), `ZBelow(n)` is inconsistent exactly while the output code exceeds `n` (the requirer observes nothing).
  ZNever, ZBelow(i64),
}

pub fn out_code(o: &Out) -> Val { match o { Ok(v) => *v as Val, Err(e) => 100 + *e as Val } }

impl OK {
  pub fn observe(&self, o: &Out) -> Val {
    match self {
      OK::Equals => out_code(o) + 1,
      OK::OkEq => match o { Ok(v) => *v as Val + 1, Err(_) => 0 },
      OK::ErrEq => match o { Err(e) => *e as Val + 1, Ok(_) => 0 },
      OK::ResultC => o.is_err() as Val,
      OK::Always | OK::ZBelow(_) => 0,
      OK::ZNever => out_code(o) + 1,
      OK::Parity => out_code(o).rem_euclid(2),
    }
  }
  pub fn is_exact(&self) -> bool { matches!(self, OK::Equals) }
  pub fn is_zst(&self) -> bool { matches!(self, OK::ZNever | OK::ZBelow(_)) }
  pub fn zst_inconsistent(&self, o: &Out) -> bool { match self { OK::ZNever => true, OK::ZBelow(n) => out_code(o) > *n, _ => false } }
}

// ---------------------------------------------------------------------------------------------------------------------
// Event log

#[derive(Clone, Copy, Debug, PartialEq, Eq, Hash)]
pub enum OpK { Read, Require, Write, WriteVia }

#[derive(Clone, Copy, Debug, PartialEq, Eq, Hash, PartialOrd, Ord)]
pub enum Target { Task(Tid), Res(ResKey) }

#[derive(Clone, Copy, Debug, PartialEq, Eq, Hash)]
pub enum Route { Path, Reader, Writer }

#[derive(Clone, Copy, Debug, PartialEq, Eq, Hash)]
pub enum Verdict { Consistent, Inconsistent, Error(u32) }

/// Owner of a stamp: (task, execution number, dynamic op position).
pub type Owner = (Tid, u32, u32);

#[derive(Clone, Debug, PartialEq)]
pub enum Ev {
  SessionStart(usize),
  RootStart { t: Tid },
  RootEnd { t: Tid, out: Out },
  BuStart,
  BuScheduled,
  BuEnd,
  /// A bottom-up build that received its report was dropped without being run.
  BuDropped,
  /// An aborted build was caught inside the session; the same session is used further.
  Continue,
  /// An external change made while the session is open (between two bottom-up builds of one session).
  MidChange { res: ResKey, new: Option<Val> },
  ExecStart { t: Tid, n: u32, bottom_up: bool },
  ExecEnd { t: Tid, n: u32, out: Out },
  OpStart { t: Tid, n: u32, pos: u32, op: OpK, target: Target },
  OpEnd { t: Tid, n: u32, pos: u32, obs: Val, ok: bool },
  WriteFnStart { res: ResKey },
  WriteFnEnd { res: ResKey, val: Option<Val> },
  ResRead { res: ResKey, reader: u64, cell: Cell },
  ResWriteOpen { res: ResKey },
  ResSet { res: ResKey, old: Option<Val>, new: Option<Val> },
  ReaderUsed { res: ResKey, reader: u64, fresh: bool },
  RStamp { serial: u64, owner: Option<Owner>, route: Route, res: ResKey, chk: RK, seen: Cell, proj: Option<Val>, reader: Option<(u64, bool)> },
  RCheck { serial: u64, res: ResKey, chk: RK, now: Cell, verdict: Verdict },
  OStamp { serial: u64, owner: Option<Owner>, chk: OK, out: Out },
  OCheck { serial: u64, chk: OK, out: Out, incons: bool },
  Trk(super::trk::TrkEv),
}

#[derive(Clone, Copy, Debug)]
pub struct OpFrame { pub t: Tid, pub n: u32, pub pos: u32, pub op: OpK, pub target: Target }

/// Fault plan for one session.
#[derive(Clone, Debug, Default)]
pub struct FaultPlan {
  /// Panic at this tick (1-based) of the session.
  pub crash_at: Option<u64>,
  /// Resource checks that return an error: the k-th `check` call (1-based) of the session.
  pub check_err_calls: Vec<u64>,
  /// Resource checks on these resources return an error.
  pub check_err_res: Vec<ResKey>,
  /// `Resource::read` fails at this call (1-based) of the session.
  pub read_err_at: Option<u64>,
  /// `Resource::write` fails at this call (1-based) of the session.
  pub write_err_at: Option<u64>,
  /// All injected checker errors of the session carry the same text (as real I/O errors of one kind do).
  pub same_err_text: bool,
}

pub struct Sim {
  pub log: Vec<Ev>,
  pub next_serial: u64,
  pub next_reader: u64,
  pub prog: Option<Rc<Program>>,
  pub op_stack: Vec<OpFrame>,
  pub exec_stack: Vec<(Tid, u32)>,
  pub exec_count: Vec<u32>,
  pub ticks: u64,
  pub check_calls: u64,
  pub read_calls: u64,
  pub write_calls: u64,
  pub faults: FaultPlan,
  pub crash_fired: bool,
  pub errors_injected: Vec<(u64, u32)>,
  pub depth_guard_fired: bool,
  pub execs_this_session: u64,
  pub file_dir: Option<std::path::PathBuf>,
  /// Key announced by the last `execute_start` tracker event (disambiguates wrapper families around one inner type).
  pub next_exec_key: Option<TaskKey>,
  /// External edits made while a session is open, not yet applied to the world inside pie's resource state.
  pub pending_edits: Vec<(ResKey, Option<Val>)>,
}

impl Default for Sim {
  fn default() -> Self {
    Sim {
      log: Vec::new(), next_serial: 1, next_reader: 1, prog: None, op_stack: vec![], exec_stack: vec![], exec_count: vec![],
      ticks: 0, check_calls: 0, read_calls: 0, write_calls: 0, faults: FaultPlan::default(), crash_fired: false,
      errors_injected: vec![], depth_guard_fired: false, execs_this_session: 0, file_dir: None, next_exec_key: None, pending_edits: vec![],
    }
  }
}

thread_local! {
  pub static SIM: RefCell<Sim> = RefCell::new(Sim::default());
}

#[inline]
pub fn with_sim<R>(f: impl FnOnce(&mut Sim) -> R) -> R { SIM.with(|s| f(&mut s.borrow_mut())) }

#[inline]
pub fn log(ev: Ev) { with_sim(|s| s.log.push(ev)); }

pub const CRASH_MSG: &str = "INJECTED-CRASH";

/// A point at which an injected crash may fire.
#[inline]
pub fn tick() {
  let fire = with_sim(|s| {
    s.ticks += 1;
    if s.faults.crash_at == Some(s.ticks) { s.crash_fired = true; true } else { false }
  });
  if fire { panic!("{}", CRASH_MSG); }
}

fn new_serial() -> u64 { with_sim(|s| { let v = s.next_serial; s.next_serial += 1; v }) }

// ---------------------------------------------------------------------------------------------------------------------
// Error type

#[derive(Clone, Copy, Debug, PartialEq, Eq, Hash)]
pub struct SimErr(pub u32);
impl fmt::Display for SimErr {
  fn fmt(&self, f: &mut fmt::Formatter<'_>) -> fmt::Result { write!(f, "SimErr({})", self.0) }
}
impl std::error::Error for SimErr {}

// ---------------------------------------------------------------------------------------------------------------------
// Simulated resource families RA = R<0>, RB = R<1>

#[derive(Clone, Copy, PartialEq, Eq, Hash)]
pub struct R<const F: u8>(pub u32);
impl<const F: u8> Debug for R<F> {
  fn fmt(&self, f: &mut fmt::Formatter<'_>) -> fmt::Result { write!(f, "R({})", self.0) }
}

#[derive(Default)]
pub struct SimWorld { pub cells: BTreeMap<u32, Cell> }

impl SimWorld {
  pub fn get(&self, id: u32) -> Cell { self.cells.get(&id).copied().unwrap_or_default() }
  pub fn set(&mut self, id: u32, val: Option<Val>) {
    let c = self.cells.entry(id).or_default();
    c.val = val;
    c.ver += 1;
  }
}

pub struct SimReader { pub serial: u64, pub cell: Cell, pub cursor: u8, pub key: ResKey }
impl SimReader {
  /// The task reads the content: only legal on a fresh reader.
  pub fn take(&mut self) -> Option<Val> {
    log(Ev::ReaderUsed { res: self.key, reader: self.serial, fresh: self.cursor == 0 });
    self.cursor = 1;
    self.cell.val
  }
}

pub struct SimWriter<'r> { pub world: &'r mut SimWorld, pub key: ResKey }
impl SimWriter<'_> {
  pub fn set(&mut self, val: Option<Val>) {
    let old = self.world.get(self.key.id).val;
    self.world.set(self.key.id, val);
    log(Ev::ResSet { res: self.key, old, new: val });
  }
  pub fn get(&self) -> Cell { self.world.get(self.key.id) }
}

/// The simulated world of family `F`, with the external edits applied that were made while a session was open (the
/// session borrows pie's resource state, so such edits wait in the simulator and are applied before the next access:
/// nobody can observe the world in between).
pub fn sim_world<const F: u8, RS: ResourceState<R<F>>>(state: &mut RS) -> &mut SimWorld {
  let w = state.get_or_set_default_mut::<SimWorld>();
  let edits: Vec<(u32, Option<Val>)> = with_sim(|s| { let mine: Vec<(u32, Option<Val>)> = s.pending_edits.iter().filter(|(k, _)| k.fam == F).map(|(k, v)| (k.id, *v)).collect(); s.pending_edits.retain(|(k, _)| k.fam != F); mine });
  for (id, v) in edits { w.set(id, v); }
  w
}

impl<const F: u8> Resource for R<F> {
  type Reader<'rs> = SimReader;
  type Writer<'r> = SimWriter<'r>;
  type Error = SimErr;

  fn read<'rs, RS: ResourceState<Self>>(&self, state: &'rs mut RS) -> Result<SimReader, SimErr> {
    let key = ResKey { fam: F, id: self.0 };
    let fail = with_sim(|s| { s.read_calls += 1; s.faults.read_err_at == Some(s.read_calls) });
    if fail { return Err(SimErr(7000 + self.0)); }
    let cell = sim_world::<F, RS>(state).get(self.0);
    let serial = with_sim(|s| { let v = s.next_reader; s.next_reader += 1; v });
    log(Ev::ResRead { res: key, reader: serial, cell });
    Ok(SimReader { serial, cell, cursor: 0, key })
  }

  fn write<'r, RS: ResourceState<Self>>(&'r self, state: &'r mut RS) -> Result<SimWriter<'r>, SimErr> {
    let key = ResKey { fam: F, id: self.0 };
    let fail = with_sim(|s| { s.write_calls += 1; s.faults.write_err_at == Some(s.write_calls) });
    if fail { return Err(SimErr(8000 + self.0)); }
    log(Ev::ResWriteOpen { res: key });
    Ok(SimWriter { world: sim_world::<F, RS>(state), key })
  }
}

// ---------------------------------------------------------------------------------------------------------------------
// Instrumented resource checker for R<F>

/// `tag` makes two checkers of the same kind different values (class M).
#[derive(Clone, Copy, PartialEq, Eq, Hash)]
pub struct RChk { pub kind: RK, pub tag: u8 }
impl Debug for RChk {
  fn fmt(&self, f: &mut fmt::Formatter<'_>) -> fmt::Result { write!(f, "RChk({:?},{})", self.kind, self.tag) }
}

/// The stamp of pie's own checker when the instrumented checker delegates to it (map and file resources).
#[derive(Clone, Copy, PartialEq, Eq, Hash, Debug)]
pub enum RealStamp { None, Map(Option<Val>), Exists(bool), Hash(Option<[u8; 32]>), Modified(Option<std::time::SystemTime>) }

#[derive(Clone, Copy, PartialEq, Eq, Hash)]
pub struct RStamp { pub serial: u64, pub proj: Option<Val>, pub real: RealStamp }
impl Debug for RStamp {
  fn fmt(&self, f: &mut fmt::Formatter<'_>) -> fmt::Result { write!(f, "RStamp#{}({:?})", self.serial, self.proj) }
}

fn owner_for(target: Target) -> Option<Owner> {
  with_sim(|s| s.op_stack.last().filter(|f| f.target == target).map(|f| (f.t, f.n, f.pos)))
}

impl<const F: u8> ResourceChecker<R<F>> for RChk {
  type Stamp = RStamp;
  type Error = SimErr;

  fn stamp<RS: ResourceState<R<F>>>(&self, resource: &R<F>, state: &mut RS) -> Result<RStamp, SimErr> {
    tick();
    let key = ResKey { fam: F, id: resource.0 };
    let cell = sim_world::<F, RS>(state).get(resource.0);
    let serial = new_serial();
    let proj = self.kind.stamp_of(cell);
    log(Ev::RStamp { serial, owner: owner_for(Target::Res(key)), route: Route::Path, res: key, chk: self.kind, seen: cell, proj, reader: None });
    Ok(RStamp { serial, proj, real: RealStamp::None })
  }

  fn stamp_reader(&self, resource: &R<F>, reader: &mut SimReader) -> Result<RStamp, SimErr> {
    tick();
    let key = ResKey { fam: F, id: resource.0 };
    let serial = new_serial();
    let proj = self.kind.stamp_of(reader.cell);
    let fresh = reader.cursor == 0;
    // Use the reader (like hashing a file) and restore it (like rewinding).
    reader.cursor = 1;
    reader.cursor = 0;
    log(Ev::RStamp { serial, owner: owner_for(Target::Res(key)), route: Route::Reader, res: key, chk: self.kind, seen: reader.cell, proj, reader: Some((reader.serial, fresh)) });
    Ok(RStamp { serial, proj, real: RealStamp::None })
  }

  fn stamp_writer(&self, resource: &R<F>, writer: SimWriter<'_>) -> Result<RStamp, SimErr> {
    tick();
    let key = ResKey { fam: F, id: resource.0 };
    let cell = writer.get();
    let serial = new_serial();
    let proj = self.kind.stamp_of(cell);
    log(Ev::RStamp { serial, owner: owner_for(Target::Res(key)), route: Route::Writer, res: key, chk: self.kind, seen: cell, proj, reader: None });
    Ok(RStamp { serial, proj, real: RealStamp::None })
  }

  fn check<RS: ResourceState<R<F>>>(&self, resource: &R<F>, state: &mut RS, stamp: &RStamp) -> Result<Option<impl Debug>, SimErr> {
    tick();
    let key = ResKey { fam: F, id: resource.0 };
    let cell = sim_world::<F, RS>(state).get(resource.0);
    let err = with_sim(|s| {
      s.check_calls += 1;
      if s.faults.check_err_calls.contains(&s.check_calls) || s.faults.check_err_res.contains(&key) {
        let code = if s.faults.same_err_text { 9000 } else { 9000 + s.errors_injected.len() as u32 };
        s.errors_injected.push((stamp.serial, code));
        Some(code)
      } else { None }
    });
    if let Some(code) = err {
      log(Ev::RCheck { serial: stamp.serial, res: key, chk: self.kind, now: cell, verdict: Verdict::Error(code) });
      return Err(SimErr(code));
    }
    let now = self.kind.stamp_of(cell);
    let incons = now != stamp.proj;
    log(Ev::RCheck { serial: stamp.serial, res: key, chk: self.kind, now: cell, verdict: if incons { Verdict::Inconsistent } else { Verdict::Consistent } });
    Ok(if incons { Some(now) } else { None })
  }

  fn wrap_error(&self, error: SimErr) -> SimErr { error }
}

// ---------------------------------------------------------------------------------------------------------------------
// Checker with a zero-sized stamp (simulated families only). The serial that identifies the dependency it belongs to
// is carried by the checker itself (given by the interpreter when the access is made).

#[derive(Clone, Copy, PartialEq, Eq, Hash)]
pub struct ZChk { pub kind: RK, pub serial: u64 }
impl Debug for ZChk {
  fn fmt(&self, f: &mut fmt::Formatter<'_>) -> fmt::Result { write!(f, "ZChk({:?})#{}", self.kind, self.serial) }
}
#[derive(Clone, Copy, PartialEq, Eq, Hash, Debug)]
pub struct ZStamp;

pub fn new_serial_pub() -> u64 { new_serial() }

impl<const F: u8> ResourceChecker<R<F>> for ZChk {
  type Stamp = ZStamp;
  type Error = SimErr;

  fn stamp<RS: ResourceState<R<F>>>(&self, resource: &R<F>, state: &mut RS) -> Result<ZStamp, SimErr> {
    tick();
    let key = ResKey { fam: F, id: resource.0 };
    let cell = sim_world::<F, RS>(state).get(resource.0);
    log(Ev::RStamp { serial: self.serial, owner: owner_for(Target::Res(key)), route: Route::Path, res: key, chk: self.kind, seen: cell, proj: None, reader: None });
    Ok(ZStamp)
  }
  fn stamp_reader(&self, resource: &R<F>, reader: &mut SimReader) -> Result<ZStamp, SimErr> {
    tick();
    let key = ResKey { fam: F, id: resource.0 };
    let fresh = reader.cursor == 0;
    log(Ev::RStamp { serial: self.serial, owner: owner_for(Target::Res(key)), route: Route::Reader, res: key, chk: self.kind, seen: reader.cell, proj: None, reader: Some((reader.serial, fresh)) });
    Ok(ZStamp)
  }
  fn stamp_writer(&self, resource: &R<F>, writer: SimWriter<'_>) -> Result<ZStamp, SimErr> {
    tick();
    let key = ResKey { fam: F, id: resource.0 };
    let cell = writer.get();
    log(Ev::RStamp { serial: self.serial, owner: owner_for(Target::Res(key)), route: Route::Writer, res: key, chk: self.kind, seen: cell, proj: None, reader: None });
    Ok(ZStamp)
  }
  fn check<RS: ResourceState<R<F>>>(&self, resource: &R<F>, state: &mut RS, _stamp: &ZStamp) -> Result<Option<impl Debug>, SimErr> {
    tick();
    let key = ResKey { fam: F, id: resource.0 };
    let cell = sim_world::<F, RS>(state).get(resource.0);
    if let Some(code) = injected_check_error(key, self.serial) {
      log(Ev::RCheck { serial: self.serial, res: key, chk: self.kind, now: cell, verdict: Verdict::Error(code) });
      return Err(SimErr(code));
    }
    let incons = self.kind.zst_inconsistent(cell);
    log(Ev::RCheck { serial: self.serial, res: key, chk: self.kind, now: cell, verdict: if incons { Verdict::Inconsistent } else { Verdict::Consistent } });
    Ok(if incons { Some(cell.val) } else { None })
  }
  fn wrap_error(&self, error: SimErr) -> SimErr { error }
}

// ---------------------------------------------------------------------------------------------------------------------
// Instrumented output checker, delegating to pie's built-in checkers

#[derive(Clone, Copy, PartialEq, Eq, Hash)]
pub struct OChk { pub kind: OK, pub tag: u8 }
impl Debug for OChk {
  fn fmt(&self, f: &mut fmt::Formatter<'_>) -> fmt::Result { write!(f, "OChk({:?},{})", self.kind, self.tag) }
}

#[derive(Clone, Copy, Debug, PartialEq, Eq, Hash)]
pub enum OVal { Eq(Out), OkEq(Option<u8>), ErrEq(Option<u8>), Res(bool), Unit, Par(Val) }

#[derive(Clone, Copy, PartialEq, Eq, Hash)]
pub struct OStamp { pub serial: u64, pub val: OVal }
impl Debug for OStamp {
  fn fmt(&self, f: &mut fmt::Formatter<'_>) -> fmt::Result { write!(f, "OStamp#{}({:?})", self.serial, self.val) }
}

impl OutputChecker<Out> for OChk {
  type Stamp = OStamp;

  fn stamp(&self, output: &Out) -> OStamp {
    tick();
    let serial = new_serial();
    let val = match self.kind {
      OK::Equals => OVal::Eq(<EqualsChecker as OutputChecker<Out>>::stamp(&EqualsChecker, output)),
      OK::OkEq => OVal::OkEq(<OkEqualsChecker as OutputChecker<Out>>::stamp(&OkEqualsChecker, output)),
      OK::ErrEq => OVal::ErrEq(<ErrEqualsChecker as OutputChecker<Out>>::stamp(&ErrEqualsChecker, output)),
      OK::ResultC => OVal::Res(<ResultChecker as OutputChecker<Out>>::stamp(&ResultChecker, output)),
      OK::Always => { <AlwaysConsistent as OutputChecker<Out>>::stamp(&AlwaysConsistent, output); OVal::Unit }
      OK::Parity => OVal::Par(out_code(output).rem_euclid(2)),
      OK::ZNever | OK::ZBelow(_) => OVal::Unit,
    };
    let owner = with_sim(|s| s.op_stack.last().filter(|f| f.op == OpK::Require).map(|f| (f.t, f.n, f.pos)));
    log(Ev::OStamp { serial, owner, chk: self.kind, out: *output });
    OStamp { serial, val }
  }

  fn check(&self, output: &Out, stamp: &OStamp) -> Option<impl Debug> {
    tick();
    let incons = match (self.kind, &stamp.val) {
      (OK::Equals, OVal::Eq(s)) => <EqualsChecker as OutputChecker<Out>>::check(&EqualsChecker, output, s).is_some(),
      (OK::OkEq, OVal::OkEq(s)) => <OkEqualsChecker as OutputChecker<Out>>::check(&OkEqualsChecker, output, s).is_some(),
      (OK::ErrEq, OVal::ErrEq(s)) => <ErrEqualsChecker as OutputChecker<Out>>::check(&ErrEqualsChecker, output, s).is_some(),
      (OK::ResultC, OVal::Res(s)) => <ResultChecker as OutputChecker<Out>>::check(&ResultChecker, output, s).is_some(),
      (OK::Always, OVal::Unit) => <AlwaysConsistent as OutputChecker<Out>>::check(&AlwaysConsistent, output, &()).is_some(),
      (OK::Parity, OVal::Par(p)) => out_code(output).rem_euclid(2) != *p,
      _ => true, // a stamp of another checker kind was handed to this checker
    };
    log(Ev::OCheck { serial: stamp.serial, chk: self.kind, out: *output, incons });
    if incons { Some(*output) } else { None }
  }
}

/// Output checker with a zero-sized stamp; the serial of the dependency travels in the checker.
#[derive(Clone, Copy, PartialEq, Eq, Hash)]
pub struct ZOChk { pub kind: OK, pub serial: u64 }
impl Debug for ZOChk {
  fn fmt(&self, f: &mut fmt::Formatter<'_>) -> fmt::Result { write!(f, "ZOChk({:?})#{}", self.kind, self.serial) }
}
impl OutputChecker<Out> for ZOChk {
  type Stamp = ZStamp;
  fn stamp(&self, output: &Out) -> ZStamp {
    tick();
    let owner = with_sim(|s| s.op_stack.last().filter(|f| f.op == OpK::Require).map(|f| (f.t, f.n, f.pos)));
    log(Ev::OStamp { serial: self.serial, owner, chk: self.kind, out: *output });
    ZStamp
  }
  fn check(&self, output: &Out, _stamp: &ZStamp) -> Option<impl Debug> {
    tick();
    let incons = self.kind.zst_inconsistent(output);
    log(Ev::OCheck { serial: self.serial, chk: self.kind, out: *output, incons });
    if incons { Some(*output) } else { None }
  }
}

// ---------------------------------------------------------------------------------------------------------------------
// pie's map resource as a backend: families MK<2>, MK<3>. The instrumented checker delegates to `MapEqualsChecker`
// for the exact kind and applies its own projection to the value otherwise.

#[derive(Clone, Copy, PartialEq, Eq, Hash)]
pub struct MK<const F: u8>(pub u32);
impl<const F: u8> Debug for MK<F> {
  fn fmt(&self, f: &mut fmt::Formatter<'_>) -> fmt::Result { write!(f, "R({})", self.0) }
}
impl<const F: u8> pie::resource::map::MapKey for MK<F> { type Value = Val; }

fn injected_check_error(key: ResKey, serial: u64) -> Option<u32> {
  with_sim(|s| {
    s.check_calls += 1;
    if s.faults.check_err_calls.contains(&s.check_calls) || s.faults.check_err_res.contains(&key) {
      let code = if s.faults.same_err_text { 9000 } else { 9000 + s.errors_injected.len() as u32 };
      s.errors_injected.push((serial, code));
      Some(code)
    } else { None }
  })
}

impl<const F: u8> ResourceChecker<MK<F>> for RChk {
  type Stamp = RStamp;
  type Error = SimErr;

  fn stamp<RS: ResourceState<MK<F>>>(&self, key: &MK<F>, state: &mut RS) -> Result<RStamp, SimErr> {
    tick();
    let rk = ResKey { fam: F, id: key.0 };
    let real = pie::resource::map::MapEqualsChecker.stamp(key, state).unwrap();
    let cell = Cell { val: real, ver: 0 };
    let serial = new_serial();
    let proj = self.kind.stamp_of(cell);
    log(Ev::RStamp { serial, owner: owner_for(Target::Res(rk)), route: Route::Path, res: rk, chk: self.kind, seen: cell, proj, reader: None });
    Ok(RStamp { serial, proj, real: RealStamp::Map(real) })
  }

  fn stamp_reader(&self, key: &MK<F>, reader: &mut Option<&Val>) -> Result<RStamp, SimErr> {
    tick();
    let rk = ResKey { fam: F, id: key.0 };
    let real = pie::resource::map::MapEqualsChecker.stamp_reader(key, reader).unwrap();
    let cell = Cell { val: real, ver: 0 };
    let serial = new_serial();
    let proj = self.kind.stamp_of(cell);
    log(Ev::RStamp { serial, owner: owner_for(Target::Res(rk)), route: Route::Reader, res: rk, chk: self.kind, seen: cell, proj, reader: None });
    Ok(RStamp { serial, proj, real: RealStamp::Map(real) })
  }

  fn stamp_writer(&self, key: &MK<F>, writer: pie::resource::map::MapWriter<'_, MK<F>>) -> Result<RStamp, SimErr> {
    tick();
    let rk = ResKey { fam: F, id: key.0 };
    let real = pie::resource::map::MapEqualsChecker.stamp_writer(key, writer).unwrap();
    let cell = Cell { val: real, ver: 0 };
    let serial = new_serial();
    let proj = self.kind.stamp_of(cell);
    log(Ev::RStamp { serial, owner: owner_for(Target::Res(rk)), route: Route::Writer, res: rk, chk: self.kind, seen: cell, proj, reader: None });
    Ok(RStamp { serial, proj, real: RealStamp::Map(real) })
  }

  fn check<RS: ResourceState<MK<F>>>(&self, key: &MK<F>, state: &mut RS, stamp: &RStamp) -> Result<Option<impl Debug>, SimErr> {
    tick();
    let rk = ResKey { fam: F, id: key.0 };
    let now_val = key.read(state).unwrap().copied();
    let cell = Cell { val: now_val, ver: 0 };
    if let Some(code) = injected_check_error(rk, stamp.serial) {
      log(Ev::RCheck { serial: stamp.serial, res: rk, chk: self.kind, now: cell, verdict: Verdict::Error(code) });
      return Err(SimErr(code));
    }
    let incons = match (self.kind, stamp.real) {
      (RK::Exact, RealStamp::Map(s)) => pie::resource::map::MapEqualsChecker.check(key, state, &s).unwrap().is_some(),
      _ => self.kind.stamp_of(cell) != stamp.proj,
    };
    log(Ev::RCheck { serial: stamp.serial, res: rk, chk: self.kind, now: cell, verdict: if incons { Verdict::Inconsistent } else { Verdict::Consistent } });
    Ok(if incons { Some(now_val) } else { None })
  }

  fn wrap_error(&self, error: std::convert::Infallible) -> SimErr { match error {} }
}

// ---------------------------------------------------------------------------------------------------------------------
// pie's file resource as a backend: family 4 = PathBuf under a private directory. Exact -> HashChecker,
// Exists -> ExistsChecker, Version -> ModifiedChecker; other kinds project the parsed content.

pub fn file_path(id: u32) -> std::path::PathBuf {
  with_sim(|s| s.file_dir.clone().expect("no private directory for file resources")).join(format!("f{id}"))
}

pub fn file_id(path: &std::path::Path) -> Option<u32> { path.file_name()?.to_str()?.strip_prefix('f')?.parse().ok() }

pub fn file_val(path: &std::path::Path) -> Option<Val> {
  match std::fs::metadata(path) {
    Err(_) => None,
    Ok(m) if m.is_dir() => Some(-1),
    Ok(_) => Some(std::fs::read_to_string(path).ok().and_then(|s| s.trim().parse().ok()).unwrap_or(-2)),
  }
}

fn fold_hash(h: Option<[u8; 32]>) -> Option<Val> { h.map(|h| i64::from_le_bytes([h[0], h[1], h[2], h[3], h[4], h[5], h[6], 0])) }
fn fold_time(t: Option<std::time::SystemTime>) -> Option<Val> { t.map(|t| t.duration_since(std::time::UNIX_EPOCH).map(|d| d.as_nanos() as i64).unwrap_or(-1)) }

impl RChk {
  fn file_stamp(&self, path: &std::path::PathBuf, real: RealStamp, route: Route) -> RStamp {
    let id = file_id(path).unwrap_or(u32::MAX);
    let rk = ResKey { fam: 4, id };
    let cell = Cell { val: file_val(path), ver: 0 };
    let proj = match real { RealStamp::Exists(b) => b.then_some(1), RealStamp::Hash(h) => fold_hash(h), RealStamp::Modified(t) => fold_time(t), _ => self.kind.stamp_of(cell) };
    let serial = new_serial();
    log(Ev::RStamp { serial, owner: owner_for(Target::Res(rk)), route, res: rk, chk: self.kind, seen: cell, proj, reader: None });
    RStamp { serial, proj, real }
  }
}

impl ResourceChecker<std::path::PathBuf> for RChk {
  type Stamp = RStamp;
  type Error = SimErr;

  fn stamp<RS: ResourceState<std::path::PathBuf>>(&self, path: &std::path::PathBuf, state: &mut RS) -> Result<RStamp, SimErr> {
    use pie::resource::file::{hash_checker::HashChecker, ExistsChecker, ModifiedChecker};
    tick();
    let real = match self.kind {
      RK::Exists => RealStamp::Exists(ExistsChecker.stamp(path, state).map_err(|_| SimErr(6001))?),
      RK::Exact => RealStamp::Hash(HashChecker.stamp(path, state).map_err(|_| SimErr(6002))?),
      RK::Version => RealStamp::Modified(ModifiedChecker.stamp(path, state).map_err(|_| SimErr(6003))?),
      _ => RealStamp::None,
    };
    Ok(self.file_stamp(path, real, Route::Path))
  }

  fn stamp_reader(&self, path: &std::path::PathBuf, reader: &mut pie::resource::file::OpenRead) -> Result<RStamp, SimErr> {
    use pie::resource::file::{hash_checker::HashChecker, ExistsChecker, ModifiedChecker};
    tick();
    let real = match self.kind {
      RK::Exists => RealStamp::Exists(ExistsChecker.stamp_reader(path, reader).map_err(|_| SimErr(6011))?),
      RK::Exact => RealStamp::Hash(HashChecker.stamp_reader(path, reader).map_err(|_| SimErr(6012))?),
      RK::Version => RealStamp::Modified(ModifiedChecker.stamp_reader(path, reader).map_err(|_| SimErr(6013))?),
      _ => RealStamp::None,
    };
    Ok(self.file_stamp(path, real, Route::Reader))
  }

  fn stamp_writer(&self, path: &std::path::PathBuf, writer: std::fs::File) -> Result<RStamp, SimErr> {
    use pie::resource::file::{hash_checker::HashChecker, ExistsChecker, ModifiedChecker};
    tick();
    let real = match self.kind {
      RK::Exists => RealStamp::Exists(ExistsChecker.stamp_writer(path, writer).map_err(|_| SimErr(6021))?),
      RK::Exact => RealStamp::Hash(HashChecker.stamp_writer(path, writer).map_err(|_| SimErr(6022))?),
      RK::Version => RealStamp::Modified(ModifiedChecker.stamp_writer(path, writer).map_err(|_| SimErr(6023))?),
      _ => { drop(writer); RealStamp::None }
    };
    Ok(self.file_stamp(path, real, Route::Writer))
  }

  fn check<RS: ResourceState<std::path::PathBuf>>(&self, path: &std::path::PathBuf, state: &mut RS, stamp: &RStamp) -> Result<Option<impl Debug>, SimErr> {
    use pie::resource::file::{hash_checker::HashChecker, ExistsChecker, ModifiedChecker};
    tick();
    let id = file_id(path).unwrap_or(u32::MAX);
    let rk = ResKey { fam: 4, id };
    let cell = Cell { val: file_val(path), ver: 0 };
    if let Some(code) = injected_check_error(rk, stamp.serial) {
      log(Ev::RCheck { serial: stamp.serial, res: rk, chk: self.kind, now: cell, verdict: Verdict::Error(code) });
      return Err(SimErr(code));
    }
    let incons = match (self.kind, stamp.real) {
      (RK::Exists, RealStamp::Exists(s)) => ExistsChecker.check(path, state, &s).map_err(|_| SimErr(6031))?.is_some(),
      (RK::Exact, RealStamp::Hash(s)) => HashChecker.check(path, state, &s).map_err(|_| SimErr(6032))?.is_some(),
      (RK::Version, RealStamp::Modified(s)) => ModifiedChecker.check(path, state, &s).map_err(|_| SimErr(6033))?.is_some(),
      _ => self.kind.stamp_of(cell) != stamp.proj,
    };
    log(Ev::RCheck { serial: stamp.serial, res: rk, chk: self.kind, now: cell, verdict: if incons { Verdict::Inconsistent } else { Verdict::Consistent } });
    Ok(if incons { Some(cell.val) } else { None })
  }

  fn wrap_error(&self, error: pie::resource::file::FsError) -> SimErr { let _ = error; SimErr(6000) }
}
