//! From-scratch reference model (`Clean`): a recursive interpreter of the script language over a shadow world.
use std::collections::{BTreeMap, BTreeSet};

use super::interp::{fold, out_of, write_val};
use super::prog::{Op, Program};
use super::world::{Out, Target, Tid, Val, OK, RK};

#[derive(Clone, Debug, PartialEq, Eq)]
pub enum Ill {
  Cycle { from: Tid, to: Tid },
  Overlap { res: usize, first: Tid, second: Tid },
  HiddenRead { res: usize, reader: Tid, writer: Tid },
  HiddenWrite { res: usize, reader: Tid, writer: Tid },
  /// A generated resource was read before its generator wrote it in this build (outside every program class).
  ReadBeforeWrite { res: usize, reader: Tid, writer: Tid },
  DoubleWrite { res: usize, task: Tid },
  SelfReadWrite { res: usize, task: Tid },
  MultiChecker { task: Tid, target: Target },
  TaskPanic { task: Tid },
}

impl Ill {
  pub fn is_cycle(&self) -> bool { matches!(self, Ill::Cycle { .. }) }
  pub fn is_overlap(&self) -> bool { matches!(self, Ill::Overlap { .. } | Ill::DoubleWrite { .. }) }
  pub fn is_hidden(&self) -> bool { matches!(self, Ill::HiddenRead { .. } | Ill::HiddenWrite { .. } | Ill::SelfReadWrite { .. }) }
  /// Ill-formedness that pie is not expected to diagnose but that puts a program outside the quantified classes.
  pub fn is_class_escape(&self) -> bool { matches!(self, Ill::ReadBeforeWrite { .. } | Ill::MultiChecker { .. }) }
}

pub struct Clean<'a> {
  pub prog: &'a Program,
  pub world: Vec<Option<Val>>,
  pub memo: BTreeMap<Tid, Out>,
  pub order: Vec<Tid>,
  pub stack: Vec<Tid>,
  pub ill: Vec<Ill>,
  pub edges: BTreeSet<(Tid, Tid)>,
  pub readers: BTreeMap<usize, Vec<Tid>>,
  pub writer_of: BTreeMap<usize, Tid>,
  /// Checker used per (task, target) in the current executions.
  chk_of: BTreeMap<(Tid, Target), (Option<RK>, Option<OK>, bool)>,
  pub panicked: bool,
}

impl<'a> Clean<'a> {
  pub fn new(prog: &'a Program, world: Vec<Option<Val>>) -> Self {
    Clean { prog, world, memo: BTreeMap::new(), order: vec![], stack: vec![], ill: vec![], edges: BTreeSet::new(), readers: BTreeMap::new(), writer_of: BTreeMap::new(), chk_of: BTreeMap::new(), panicked: false }
  }

  pub fn path(&self, a: Tid, b: Tid) -> bool {
    let mut seen = BTreeSet::new();
    let mut stack = vec![a];
    while let Some(x) = stack.pop() {
      for (_, d) in self.edges.range((x, 0)..=(x, usize::MAX)) {
        if *d == b { return true; }
        if seen.insert(*d) { stack.push(*d); }
      }
    }
    false
  }

  fn note_chk(&mut self, t: Tid, target: Target, r: Option<RK>, o: Option<OK>, is_write: bool) {
    let key = (t, target);
    match self.chk_of.get(&key) {
      Some(prev) => { if *prev != (r, o, is_write) { self.ill.push(Ill::MultiChecker { task: t, target }); } }
      None => { self.chk_of.insert(key, (r, o, is_write)); }
    }
  }

  fn ops(&mut self, t: Tid, ops: &[Op], acc: &mut Val) -> bool {
    for op in ops {
      match op {
        Op::Nop => {}
        Op::Panic => { self.ill.push(Ill::TaskPanic { task: t }); self.panicked = true; return false; }
        Op::If { m, modulus, then, els } => {
          let ok = if acc.rem_euclid(*modulus) == *m { self.ops(t, then, acc) } else { self.ops(t, els, acc) };
          if !ok { return false; }
        }
        Op::Switch { res, cases } => {
          self.note_chk(t, Target::Res(self.prog.resources[*res]), Some(RK::Exact), None, false);
          if let Some(w) = self.writer_of.get(res).copied() {
            if w == t { self.ill.push(Ill::SelfReadWrite { res: *res, task: t }); }
            else if !self.path(t, w) { self.ill.push(Ill::HiddenRead { res: *res, reader: t, writer: w }); }
          }
          self.readers.entry(*res).or_default().push(t);
          let val = self.world[*res];
          *acc = fold(*acc, RK::Exact.observe(val));
          if !cases.is_empty() {
            let case = val.map(|v| v.rem_euclid(cases.len() as Val) as usize).unwrap_or(0);
            if !self.ops(t, &cases[case], acc) { return false; }
          }
        }
        Op::Read { res, chk } => {
          self.note_chk(t, Target::Res(self.prog.resources[*res]), Some(*chk), None, false);
          if let Some(w) = self.writer_of.get(res).copied() {
            if w == t { self.ill.push(Ill::SelfReadWrite { res: *res, task: t }); }
            else if !self.path(t, w) { self.ill.push(Ill::HiddenRead { res: *res, reader: t, writer: w }); }
          }
          self.readers.entry(*res).or_default().push(t);
          *acc = fold(*acc, chk.observe(self.world[*res]));
        }
        Op::Require { task, chk } => {
          self.note_chk(t, Target::Task(*task), None, Some(*chk), false);
          self.edges.insert((t, *task));
          let out = self.require(*task);
          if self.panicked { return false; }
          *acc = fold(*acc, chk.observe(&out));
        }
        Op::Write { res, chk, k, .. } => {
          self.note_chk(t, Target::Res(self.prog.resources[*res]), Some(*chk), None, true);
          let val = write_val(*acc, *k);
          if let Some(w) = self.writer_of.get(res).copied() {
            if w != t { self.ill.push(Ill::Overlap { res: *res, first: w, second: t }); } else { self.ill.push(Ill::DoubleWrite { res: *res, task: t }); }
          }
          let readers = self.readers.get(res).cloned().unwrap_or_default();
          for rd in readers {
            if rd == t { self.ill.push(Ill::SelfReadWrite { res: *res, task: t }); }
            else if !self.path(rd, t) { self.ill.push(Ill::HiddenWrite { res: *res, reader: rd, writer: t }); }
            else { self.ill.push(Ill::ReadBeforeWrite { res: *res, reader: rd, writer: t }); }
          }
          self.writer_of.insert(*res, t);
          self.world[*res] = val;
        }
      }
    }
    true
  }

  pub fn require(&mut self, t: Tid) -> Out {
    if let Some(o) = self.memo.get(&t) { return *o; }
    if self.stack.contains(&t) {
      let from = *self.stack.last().unwrap();
      self.ill.push(Ill::Cycle { from, to: t });
      return Ok(0);
    }
    self.stack.push(t);
    self.order.push(t);
    let prog = self.prog;
    let mut acc = t as Val + 1;
    let ok = self.ops(t, &prog.tasks[t].ops, &mut acc);
    self.stack.pop();
    if !ok { return Ok(0); }
    let out = out_of(acc);
    self.memo.insert(t, out);
    out
  }
}
