//! Scenario executor: drives the real `Pie` through a history and evaluates the oracles after every session.
use std::collections::{BTreeMap, BTreeSet};
use std::rc::Rc;

use pie::tracker::event::EventTracker;
use pie::tracker::CompositeTracker;
use pie::trait_object::KeyObj;
use pie::{Pie, ResourceState};

use crate::common::{catch, fnv, PanicInfo, RunOutcome, Stats, Violation};

use super::interp::{require_root, DEPTH_GUARD_MSG, EXEC_GUARD_MSG, TASK_PANIC_MSG};
use super::model::{Clean, Ill};
use super::prog::{Class, Op, Program, Scenario, Step, StepFault};
use super::trk::{IncR, KeyR, Rec, TrkEv, ValR, TK};
use super::world::*;

pub type Trk = CompositeTracker<Rec, CompositeTracker<EventTracker, Rec>>;

#[derive(Clone, Copy, Debug, PartialEq, Eq)]
pub enum DepKind { Require, Read, Write }

#[derive(Clone, Debug)]
pub struct Dep {
  pub target: Target,
  pub kind: DepKind,
  pub rchk: Option<RK>,
  pub ochk: Option<OK>,
  pub serials: Vec<u64>,
  /// Checker and kind of every access to this target, parallel to `serials`.
  pub accesses: Vec<(DepKind, Option<RK>, Option<OK>)>,
}

#[derive(Clone, Debug)]
pub struct ExecRec {
  /// Tasks for which a require was issued (the reserved edge exists from that moment).
  pub req_issued: Vec<Tid>,
  pub n: u32,
  pub completed: bool,
  pub out: Option<Out>,
  pub deps: Vec<Dep>,
  pub session: usize,
}

#[derive(Clone, Debug)]
pub struct StampInfo {
  pub owner: Option<Owner>,
  pub target: Target,
  pub kind: DepKind,
  pub out: Option<Out>,
}

#[derive(Clone, Debug, PartialEq, Eq)]
pub enum AbortKind { Cycle, Hidden, Overlap, Internal, InjectedCrash, TaskPanic, Guard, Other }

#[derive(Clone, Debug)]
pub struct Abort { pub kind: AbortKind, pub info: PanicInfo }

pub fn classify(p: &PanicInfo) -> AbortKind {
  if p.msg.starts_with(CRASH_MSG) { return AbortKind::InjectedCrash; }
  if p.msg.starts_with(TASK_PANIC_MSG) { return AbortKind::TaskPanic; }
  if p.msg.starts_with(DEPTH_GUARD_MSG) || p.msg.starts_with(EXEC_GUARD_MSG) { return AbortKind::Guard; }
  let in_ctx = p.file.ends_with("pie/src/context/mod.rs");
  if in_ctx && p.msg.starts_with("Cyclic task dependency") { return AbortKind::Cycle; }
  if in_ctx && p.msg.starts_with("Hidden dependency") { return AbortKind::Hidden; }
  if in_ctx && p.msg.starts_with("Overlapping write") { return AbortKind::Overlap; }
  if p.in_repo() { return AbortKind::Internal; }
  AbortKind::Other
}

pub struct Analysis {
  pub executed: BTreeSet<Tid>,
  pub validated_ok: BTreeSet<Tid>,
  /// The innermost context call that had not returned when the session ended (abort site).
  pub open_op: Option<(Tid, OpK, Target)>,
  pub exec_stack: Vec<Tid>,
  /// Tasks scheduled in a bottom-up build and not yet executed when the session ended.
  pub pending: Vec<Tid>,
  /// Tasks whose top-down validation had already met an inconsistent / erroneous dependency (so that validation must
  /// stop and the task must be re-executed, replacing its record) and that had not started executing when the session ended.
  pub incons_open: BTreeSet<Tid>,
  /// Tasks all of whose recorded dependencies were checked and found consistent in this segment (pie then holds them
  /// as consistent for the rest of the session, also when the task that required them was aborted later).
  pub pass_complete: BTreeSet<Tid>,
  /// Tasks whose cached output a bottom-up build handed out (pie marks them consistent for the session).
  pub bu_reused: BTreeSet<Tid>,
}

#[derive(Clone, Debug)]
enum SessionKind { TopDown(Vec<Tid>), BottomUp { report: Vec<usize>, complete: bool, then_require: Vec<Tid>, pre_require: Vec<Tid>, shape: u8, mid: Vec<(usize, Option<Val>)> } }

/// One segment of a pie session: the builds up to and including one that aborted, or up to the end of the session.
/// Sessions that are not continued after an abort have exactly one segment.
struct SessionResult {
  kind: SessionKind,
  start: usize,
  end: usize,
  abort: Option<Abort>,
  roots_out: Vec<(Tid, Out)>,
  check_errors: Vec<String>,
}

/// What earlier segments of the same pie session established (pie keeps it in the session's `consistent` set).
#[derive(Default)]
struct Carry {
  validated: BTreeSet<Tid>,
  completed: BTreeSet<Tid>,
  /// The session began with a bottom-up build that no property claims (after an abort, or after a partial top-down
  /// build left requirers stale: recorded finding); what it marked consistent stays so for the rest of the session.
  unclaimed: bool,
  /// A build of this session that aborted had modified a resource on which a task depends that the session already
  /// holds as consistent (only possible with a diagnosed hidden dependency / overlap, i.e. an ill-formed program): the
  /// session goes on reusing that task, which no property forbids (a new session would validate it again).
  tainted: bool,
}

struct SegBuilder { segs: Vec<SessionResult>, kind: SessionKind, start: usize, roots_out: Vec<(Tid, Out)> }
impl SegBuilder {
  fn add_root(&mut self, t: Tid) { match &mut self.kind { SessionKind::TopDown(r) => r.push(t), SessionKind::BottomUp { then_require, .. } => then_require.push(t) } }
  fn close(&mut self, abort: Option<PanicInfo>, last: bool) {
    let end = with_sim(|s| s.log.len());
    let kind = std::mem::replace(&mut self.kind, SessionKind::TopDown(vec![]));
    self.segs.push(SessionResult { kind, start: self.start, end, abort: abort.map(|info| Abort { kind: classify(&info), info }), roots_out: std::mem::take(&mut self.roots_out), check_errors: vec![] });
    if !last {
      // The caller caught the abort and goes on using the same session.
      // (the runaway guard of the interpreter counts executions per build: every retry re-executes what the abort left without output)
      self.start = with_sim(|s| { s.op_stack.clear(); s.exec_stack.clear(); s.execs_this_session = 0; s.log.push(Ev::Continue); s.log.len() });
    }
  }
}

pub struct Runner<'a> {
  scn: &'a Scenario,
  prog: Rc<Program>,
  prop: &'a str,
  pie: Pie<Trk>,
  shadow: Vec<Option<Val>>,
  known: BTreeSet<Tid>,
  ledger: Vec<Option<ExecRec>>,
  /// The record that each task's latest execution replaced.
  prev: Vec<Option<ExecRec>>,
  ever_completed: Vec<bool>,
  stamps: Vec<Option<StampInfo>>,
  stamp_seen: BTreeMap<u64, Option<Val>>,
  changed: BTreeSet<usize>,
  all_consistent: bool,
  last_td: Option<Vec<Tid>>,
  last_bu_complete: bool,
  session_no: usize,
  aborted_before: bool,
  aborted_earlier: bool,
  /// Tasks re-executed by partial top-down sessions since the last point at which all known tasks were consistent.
  td_partial_exec: BTreeSet<Tid>,
  /// An abort happened and no returning session has required all known tasks since.
  abort_dirty: bool,
  pub vs: Vec<Violation>,
  pub stats: Stats,
  pub trace: u64,
  pub harness_error: Option<String>,
  pub reuse_and_exec: bool,
  pub nontrivial: bool,
  pub errors_fired: u64,
  pub crashes_fired: u64,
  pub td_after_abort_returned: u64,
  pub bu_nontrivial: bool,
  pub diag_aborts: u64,
  trk_seen: usize,
  ext_tick: u64,
  file_dir: Option<std::path::PathBuf>,
}

fn res_get(pie: &mut Pie<Trk>, key: ResKey) -> Cell {
  use pie::resource::map::GetGlobalMap;
  match key.fam {
    0 => pie.resource_state_mut::<R<0>>().get_or_set_default_mut::<SimWorld>().get(key.id),
    1 => pie.resource_state_mut::<R<1>>().get_or_set_default_mut::<SimWorld>().get(key.id),
    2 => Cell { val: pie.resource_state_mut::<MK<2>>().get_global_map().get(&MK::<2>(key.id)).copied(), ver: 0 },
    3 => Cell { val: pie.resource_state_mut::<MK<3>>().get_global_map().get(&MK::<3>(key.id)).copied(), ver: 0 },
    _ => Cell { val: file_val(&file_path(key.id)), ver: 0 },
  }
}

/// External edit of a resource. `tick` gives file resources an explicit, strictly increasing modification time.
fn res_set(pie: &mut Pie<Trk>, key: ResKey, val: Option<Val>, tick: u64) {
  use pie::resource::map::GetGlobalMap;
  match key.fam {
    0 => pie.resource_state_mut::<R<0>>().get_or_set_default_mut::<SimWorld>().set(key.id, val),
    1 => pie.resource_state_mut::<R<1>>().get_or_set_default_mut::<SimWorld>().set(key.id, val),
    2 => { let m = pie.resource_state_mut::<MK<2>>().get_global_map_mut(); match val { Some(v) => { m.insert(MK::<2>(key.id), v); } None => { m.remove(&MK::<2>(key.id)); } } }
    3 => { let m = pie.resource_state_mut::<MK<3>>().get_global_map_mut(); match val { Some(v) => { m.insert(MK::<3>(key.id), v); } None => { m.remove(&MK::<3>(key.id)); } } }
    _ => {
      let p = file_path(key.id);
      match val {
        Some(v) => {
          std::fs::write(&p, format!("{v}")).expect("cannot write file resource");
          // Far in the future and strictly increasing: no outcome may depend on the real clock.
          // Unique per change, but not monotonic: restoring an older file must be noticed as well.
          let t = std::time::UNIX_EPOCH + std::time::Duration::from_secs(4_102_444_800 + (tick * 48_271) % 100_003);
          if let Ok(f) = std::fs::File::options().write(true).open(&p) { let _ = f.set_modified(t); }
        }
        None => { let _ = std::fs::remove_file(&p); }
      }
    }
  }
}

fn schedule(bu: &mut pie::BottomUpBuild, key: ResKey) {
  match key.fam {
    0 => bu.schedule_tasks_affected_by(&R::<0>(key.id) as &dyn KeyObj),
    1 => bu.schedule_tasks_affected_by(&R::<1>(key.id) as &dyn KeyObj),
    2 => bu.schedule_tasks_affected_by(&MK::<2>(key.id) as &dyn KeyObj),
    3 => bu.schedule_tasks_affected_by(&MK::<3>(key.id) as &dyn KeyObj),
    _ => bu.schedule_tasks_affected_by(&file_path(key.id) as &dyn KeyObj),
  }
}

impl<'a> Runner<'a> {
  pub fn new(scn: &'a Scenario, prop: &'a str) -> Self {
    let prog = Rc::new(scn.program.clone());
    let n = prog.tasks.len();
    with_sim(|s| {
      *s = Sim::default();
      s.prog = Some(prog.clone());
      s.exec_count = vec![0; n];
    });
    pie::verif::set_hash_seed(scn.hash_seed);
    // A private directory for file resources (removed when the runner is dropped).
    let file_dir = if prog.resources.iter().any(|r| r.fam == 4) {
      use std::sync::atomic::{AtomicU64, Ordering};
      static N: AtomicU64 = AtomicU64::new(0);
      let base = if std::path::Path::new("/dev/shm").is_dir() { std::path::PathBuf::from("/dev/shm") } else { std::env::temp_dir() };
      let d = base.join(format!("verif-e1-{}-{}", std::process::id(), N.fetch_add(1, Ordering::Relaxed)));
      let _ = std::fs::remove_dir_all(&d);
      std::fs::create_dir_all(&d).expect("cannot create private directory");
      with_sim(|s| s.file_dir = Some(d.clone()));
      Some(d)
    } else { None };
    let pie = Pie::with_tracker(CompositeTracker::new(Rec::new(true), CompositeTracker::new(EventTracker::default(), Rec::new(false))));
    let nres = prog.resources.len();
    Runner {
      scn, prog, prop, pie, shadow: vec![None; nres], known: BTreeSet::new(), ledger: vec![None; n], prev: vec![None; n], ever_completed: vec![false; n], stamps: vec![None], stamp_seen: BTreeMap::new(),
      changed: BTreeSet::new(), all_consistent: true, last_td: None, last_bu_complete: false, session_no: 0, aborted_before: false, aborted_earlier: false, abort_dirty: false, td_partial_exec: BTreeSet::new(),
      vs: vec![], stats: Stats::default(), trace: 0xcbf2_9ce4_8422_2325, harness_error: None, reuse_and_exec: false, nontrivial: false, errors_fired: 0, crashes_fired: 0, td_after_abort_returned: 0, bu_nontrivial: false, diag_aborts: 0, trk_seen: 0, ext_tick: 0, file_dir,
    }
  }

  fn viol(&mut self, props: &[&str], oracle: &str, step: usize, msg: String) {
    if self.vs.len() < 16 { self.vs.push(Violation::new(props, oracle, step, msg)); }
  }

  fn external_set(&mut self, res: usize, val: Option<Val>) {
    let key = self.prog.resources[res];
    self.ext_tick += 1;
    res_set(&mut self.pie, key, val, self.ext_tick);
    self.shadow[res] = val;
    self.changed.insert(res);
    self.all_consistent = false;
    self.last_td = None;
  }

  pub fn run(&mut self) {
    let scn = self.scn;
    for (r, v) in scn.init.iter() {
      let key = self.prog.resources[*r];
      self.ext_tick += 1;
      res_set(&mut self.pie, key, Some(*v), self.ext_tick);
      self.shadow[*r] = Some(*v);
    }
    self.changed.clear();
    self.identity_probes();
    for (i, step) in scn.steps.iter().enumerate() {
      if self.vs.iter().any(|v| v.concerns(self.prop)) || self.vs.len() >= 4 || self.harness_error.is_some() { break; }
      fnv(&mut self.trace, i as u64 + 77);
      let fault = scn.faults.get(&i).cloned().unwrap_or_default();
      match step {
        Step::Change { res, val } => { if *res < self.shadow.len() { self.external_set(*res, *val); self.stats.hit("ext_change"); } }
        Step::Touch { res } => { if *res < self.shadow.len() { let v = self.shadow[*res]; self.external_set(*res, v); self.stats.hit("ext_touch"); } }
        Step::TopDown { roots, keep_going } => {
          let roots: Vec<Tid> = roots.iter().copied().filter(|t| *t < self.prog.tasks.len()).collect();
          let returned = self.session_kg(i, SessionKind::TopDown(roots.clone()), &fault, false, *keep_going);
          self.last_td = if returned { Some(roots) } else { None };
        }
        Step::Repeat => {
          if let Some(roots) = self.last_td.clone() {
            self.session(i, SessionKind::TopDown(roots), &StepFault::default(), true);
          }
        }
        Step::ProbeAll => {
          let roots: Vec<Tid> = self.known.iter().copied().collect();
          self.session(i, SessionKind::TopDown(roots), &fault, false);
          self.last_td = None;
        }
        Step::BottomUp { report, then_require, pre_require, shape, keep_going, mid } => {
          let (rep, complete) = match report {
            None => (self.changed.iter().copied().collect::<Vec<_>>(), !self.abort_dirty),
            Some(r) => { let r: Vec<usize> = r.iter().copied().filter(|x| *x < self.shadow.len()).collect(); let complete = !self.abort_dirty && self.changed.iter().all(|c| r.contains(c)); (r, complete) }
          };
          let then_require: Vec<Tid> = then_require.iter().copied().filter(|t| *t < self.prog.tasks.len()).collect();
          let pre_require: Vec<Tid> = pre_require.iter().copied().filter(|t| *t < self.prog.tasks.len()).collect();
          let mid: Vec<(usize, Option<Val>)> = mid.iter().copied().filter(|(r, _)| *r < self.shadow.len() && self.prog.resources[*r].fam < 2).collect();
          self.session_kg(i, SessionKind::BottomUp { report: rep, complete, then_require, pre_require, shape: *shape, mid }, &fault, false, *keep_going);
          self.last_td = None;
        }
      }
    }
    pie::verif::set_hash_seed(None);
  }

  fn arm(&self, fault: &StepFault) {
    let prog = self.prog.clone();
    with_sim(|s| {
      s.op_stack.clear();
      s.exec_stack.clear();
      s.ticks = 0;
      s.check_calls = 0;
      s.read_calls = 0;
      s.write_calls = 0;
      s.crash_fired = false;
      s.errors_injected.clear();
      s.depth_guard_fired = false;
      s.execs_this_session = 0;
      s.faults = FaultPlan {
        crash_at: fault.crash_at,
        check_err_calls: fault.check_err_calls.clone(),
        check_err_res: fault.check_err_res.iter().filter(|r| **r < prog.resources.len()).map(|r| prog.resources[*r]).collect(),
        read_err_at: fault.read_err_at,
        write_err_at: fault.write_err_at,
        same_err_text: fault.same_err_text,
      };
    });
  }

  fn execute_session(&mut self, kind: &SessionKind, fault: &StepFault, keep_going: bool) -> Vec<SessionResult> {
    self.arm(fault);
    let start = with_sim(|s| { s.log.push(Ev::SessionStart(self.session_no)); s.log.len() });
    let prog = self.prog.clone();
    let pie = &mut self.pie;
    let first_kind = match kind {
      SessionKind::TopDown(_) => SessionKind::TopDown(vec![]),
      SessionKind::BottomUp { report, complete, pre_require, shape, mid, .. } => SessionKind::BottomUp { report: report.clone(), complete: *complete, then_require: vec![], pre_require: pre_require.clone(), shape: *shape, mid: mid.clone() },
    };
    let mut sb = SegBuilder { segs: vec![], kind: first_kind, start, roots_out: vec![] };
    let mut check_errors = vec![];
    let r = catch(|| {
      let mut session = pie.new_session();
      // One `Session::require`; with `keep_going` an abort is caught here and the same session is used further.
      fn require_one(session: &mut pie::Session, prog: &Program, t: Tid, keep_going: bool, sb: &mut SegBuilder) {
        sb.add_root(t);
        log(Ev::RootStart { t });
        let key = prog.tasks[t].key;
        if keep_going {
          match catch(|| require_root(session, key)) {
            Ok(out) => { log(Ev::RootEnd { t, out }); sb.roots_out.push((t, out)); }
            Err(info) => { sb.close(Some(info), false); }
          }
        } else {
          let out = require_root(session, key);
          log(Ev::RootEnd { t, out });
          sb.roots_out.push((t, out));
        }
      }
      match kind {
        SessionKind::TopDown(roots) => {
          for t in roots.iter() { require_one(&mut session, &prog, *t, keep_going, &mut sb); }
        }
        SessionKind::BottomUp { report, then_require, pre_require, shape, mid, .. } => {
          let mut bu_part = |session: &mut pie::Session, roots_out: &mut Vec<(Tid, Out)>| {
            if shape & 4 != 0 {
              // A build that gets the report and is dropped unused *before* the top-down phase: what it scheduled must
              // not survive into the real build (the top-down phase brings some of those tasks up to date).
              log(Ev::BuStart);
              {
                let mut bu = session.create_bottom_up_build();
                for r in report.iter() { schedule(&mut bu, prog.resources[*r]); }
              }
              log(Ev::BuDropped);
            }
            for t in pre_require.iter() {
              log(Ev::RootStart { t: *t });
              let out = require_root(session, prog.tasks[*t].key);
              log(Ev::RootEnd { t: *t, out });
              roots_out.push((*t, out));
            }
            // Resources that tasks wrote in the top-down phase of this session have changed as well: they are reported.
            let mut report: Vec<usize> = report.clone();
            if !pre_require.is_empty() {
              let written: Vec<usize> = with_sim(|s| s.log[start..].iter().filter_map(|e| if let Ev::ResSet { res, .. } = e { prog.res_index(*res) } else { None }).collect());
              for r in written { if !report.contains(&r) { report.push(r); } }
            }
            if shape & 1 != 0 {
              log(Ev::BuStart);
              {
                let mut bu = session.create_bottom_up_build();
                for r in report.iter() { schedule(&mut bu, prog.resources[*r]); }
              }
              log(Ev::BuDropped);
            }
            for _build in 0..(if shape & 2 != 0 { 2 } else { 1 }) {
              log(Ev::BuStart);
              {
                let mut bu = session.create_bottom_up_build();
                for r in report.iter() { schedule(&mut bu, prog.resources[*r]); }
                log(Ev::BuScheduled);
                bu.update_affected_tasks();
              }
              log(Ev::BuEnd);
            }
            if !mid.is_empty() {
              // The outside party edits resources while the session stays open, and reports the batch to a further build.
              let mut rep2: Vec<usize> = vec![];
              for (r, v) in mid.iter() {
                let key = prog.resources[*r];
                with_sim(|s| { s.pending_edits.push((key, *v)); s.log.push(Ev::MidChange { res: key, new: *v }); });
                if !rep2.contains(r) { rep2.push(*r); }
              }
              log(Ev::BuStart);
              {
                let mut bu = session.create_bottom_up_build();
                for r in rep2.iter() { schedule(&mut bu, prog.resources[*r]); }
                log(Ev::BuScheduled);
                bu.update_affected_tasks();
              }
              log(Ev::BuEnd);
            }
          };
          if keep_going {
            let mut ro = vec![];
            let res = catch(|| bu_part(&mut session, &mut ro));
            sb.roots_out.append(&mut ro);
            if let Err(info) = res { sb.close(Some(info), false); }
          } else {
            let mut ro = vec![];
            bu_part(&mut session, &mut ro);
            sb.roots_out.append(&mut ro);
          }
          for t in then_require.iter() { require_one(&mut session, &prog, *t, keep_going, &mut sb); }
        }
      }
      check_errors = session.dependency_check_errors().map(|e| e.to_string()).collect();
    });
    with_sim(|s| { s.faults = FaultPlan::default(); });
    // External edits that no access has applied yet (the session is over: pie's resource state is reachable again).
    { let _ = sim_world::<0, _>(self.pie.resource_state_mut::<R<0>>()); let _ = sim_world::<1, _>(self.pie.resource_state_mut::<R<1>>()); }
    sb.close(r.err(), true);
    let mut segs = sb.segs;
    if let Some(l) = segs.last_mut() { l.check_errors = check_errors; }
    segs
  }

  /// Reads the real world and compares it with the expected world. `written_by_clean`: resources that the clean build
  /// wrote, with the writer's checker (projection under which equality is required).
  fn real_world(&mut self) -> Vec<Option<Val>> {
    let prog = self.prog.clone();
    prog.resources.iter().map(|k| res_get(&mut self.pie, *k).val).collect()
  }

  fn session(&mut self, step: usize, kind: SessionKind, fault: &StepFault, is_repeat: bool) -> bool { self.session_kg(step, kind, fault, is_repeat, false) }

  /// Runs one pie session and evaluates it segment by segment (`keep_going`: aborted builds are caught inside the
  /// session and the same session is used for the remaining builds).
  fn session_kg(&mut self, step: usize, kind: SessionKind, fault: &StepFault, is_repeat: bool, keep_going: bool) -> bool {
    let segs = self.execute_session(&kind, fault, keep_going);
    let n = segs.len();
    if n > 1 { self.stats.hit("probe_session_continued_after_abort"); }
    let mut carry = Carry::default();
    let mut all_returned = true;
    for (k, seg) in segs.into_iter().enumerate() {
      if self.vs.iter().any(|v| v.concerns(self.prop)) || self.harness_error.is_some() { break; }
      let returned = self.evaluate(step, seg, fault, is_repeat, k + 1 == n, &mut carry);
      all_returned &= returned;
    }
    all_returned
  }

  /// The world after a segment: the real resources when the session is over, else what the task-side log of writes gives.
  fn world_after(&mut self, last: bool, before: &[Option<Val>], slice: &[Ev]) -> Vec<Option<Val>> {
    if last { return self.real_world(); }
    let prog = self.prog.clone();
    let mut w = before.to_vec();
    for e in slice.iter() { if let Ev::ResSet { res, new, .. } | Ev::MidChange { res, new } = e { if let Some(i) = prog.res_index(*res) { w[i] = *new; } } }
    w
  }

  fn evaluate(&mut self, step: usize, res: SessionResult, fault: &StepFault, is_repeat: bool, last: bool, carry: &mut Carry) -> bool {
    let prog = self.prog.clone();
    let kind = res.kind.clone();
    let before = self.shadow.clone();
    let fault_free = fault.is_none();
    let dirty_at_start = self.abort_dirty;
    let stale_before = self.td_partial_exec.clone();
    self.session_no += 1;
    let slice: Vec<Ev> = with_sim(|s| s.log[res.start..res.end].to_vec());
    self.stats.hit(match &kind { SessionKind::TopDown(_) => "sessions_top_down", SessionKind::BottomUp { .. } => "sessions_bottom_up" });

    // Roots become known even if the session aborts.
    match &kind {
      SessionKind::TopDown(roots) => { for t in roots { if slice.iter().any(|e| matches!(e, Ev::RootStart { t: x } if x == t)) { self.known.insert(*t); } } }
      SessionKind::BottomUp { then_require, pre_require, .. } => { for t in then_require.iter().chain(pre_require.iter()) { if slice.iter().any(|e| matches!(e, Ev::RootStart { t: x } if x == t)) { self.known.insert(*t); } } }
    }

    // Top-down phase of a bottom-up session: a task that it re-executes while a recorded requirer of that task is not
    // reached is exactly the situation of the recorded mixed-mode finding (the requirer stays stale); the bottom-up
    // build of such a session is claimed as little as one that follows a partial top-down session.
    let mut stale_before = stale_before;
    if let SessionKind::BottomUp { pre_require, .. } = &kind {
      if !pre_require.is_empty() {
        // The top-down phase ends where the first build that is really run begins (dropped builds do not count).
        let first_run = slice.iter().position(|e| matches!(e, Ev::BuScheduled)).unwrap_or(slice.len());
        let pre_end = slice[..first_run].iter().rposition(|e| matches!(e, Ev::BuStart)).unwrap_or(first_run);
        let pre = &slice[..pre_end];
        let pre_reexec: BTreeSet<Tid> = pre.iter().filter_map(|e| if let Ev::ExecStart { t, n, .. } = e { if *n > 1 { Some(*t) } else { None } } else { None }).collect();
        let pre_exec: BTreeSet<Tid> = pre.iter().filter_map(|e| if let Ev::ExecStart { t, .. } = e { Some(*t) } else { None }).collect();
        let pre_checked: BTreeSet<u64> = pre.iter().filter_map(|e| if let Ev::OCheck { serial, .. } = e { Some(*serial) } else { None }).collect();
        let mut risky = false;
        for b in 0..prog.tasks.len() {
          if pre_exec.contains(&b) { continue; }
          let Some(rec) = self.ledger[b].as_ref() else { continue; };
          for d in rec.deps.iter() {
            if let (DepKind::Require, Target::Task(u)) = (d.kind, d.target) {
              if pre_reexec.contains(&u) && !d.serials.iter().any(|s| pre_checked.contains(s)) { risky = true; }
            }
          }
        }
        if risky {
          self.stats.hit("probe_in_session_partial_top_down_left_requirer_stale");
          for t in pre_reexec.iter() { self.td_partial_exec.insert(*t); stale_before.insert(*t); }
        }
      }
    }
    let held_before: BTreeSet<Tid> = carry.validated.clone();
    let analysis = self.analyse(step, &kind, &slice, &res, is_repeat, fault_free, last, carry, &before);
    // What pie's session now holds as consistent.
    for t in analysis.validated_ok.iter().chain(analysis.pass_complete.iter()).chain(analysis.bu_reused.iter()) { carry.validated.insert(*t); }
    for t in analysis.executed.iter() {
      if self.ledger[*t].as_ref().map(|e| e.completed).unwrap_or(false) {
        carry.validated.insert(*t);
        // A top-down execution that returned is marked consistent right away; a bottom-up execution only after its
        // dependents were checked (an abort in between leaves it unmarked, so it may legitimately run again).
        let n = self.ledger[*t].as_ref().map(|e| e.n).unwrap_or(0);
        if slice.iter().any(|e| matches!(e, Ev::ExecStart { t: x, n: m, bottom_up: false } if x == t && *m == n)) { carry.completed.insert(*t); }
      }
    }

    let unclaimed_here = matches!(kind, SessionKind::BottomUp { .. }) && (dirty_at_start || !stale_before.is_empty());
    let carried_unclaimed = carry.unclaimed || carry.tainted;
    let tainted_before = carry.tainted;
    if unclaimed_here { carry.unclaimed = true; }
    if res.abort.is_some() {
      // Writes of executions that did not complete (the writes of completed executions are what their records say) ...
      let mut written: Vec<ResKey> = vec![];
      let mut writer: Option<Tid> = None;
      // ... and writes that came after a task that depends on the resource had already been handed out in this session
      // (a read before the write of the generator: only in ill-formed programs).
      let mut held_now: BTreeSet<Tid> = held_before.clone();
      let mut read_before: BTreeMap<ResKey, BTreeSet<Tid>> = BTreeMap::new();
      for e in slice.iter() {
        match e {
          Ev::OpStart { t, op: OpK::Write | OpK::WriteVia, .. } => { writer = Some(*t); }
          Ev::ExecEnd { t, .. } => { held_now.insert(*t); }
          Ev::RootEnd { t, .. } => { held_now.insert(*t); }
          Ev::OpStart { t, op: OpK::Read, target: Target::Res(r), .. } => { read_before.entry(*r).or_default().insert(*t); }
          Ev::ResSet { res, .. } => {
            if let Some(w) = writer { if !self.ledger[w].as_ref().map(|e| e.completed).unwrap_or(false) { written.push(*res); } }
            if read_before.get(res).map(|ts| ts.iter().any(|t| Some(*t) != writer)).unwrap_or(false) { written.push(*res); }
            if held_now.iter().any(|t| Some(*t) != writer && self.ledger[*t].as_ref().map(|e| e.deps.iter().any(|d| d.target == Target::Res(*res))).unwrap_or(false)) { written.push(*res); }
          }
          _ => {}
        }
      }
      // Everything that a task held as consistent (transitively) requires was validated with it.
      let mut held: BTreeSet<Tid> = BTreeSet::new();
      let mut stack: Vec<Tid> = carry.validated.iter().copied().collect();
      while let Some(t) = stack.pop() {
        if !held.insert(t) { continue; }
        if let Some(e) = self.ledger[t].as_ref() { if e.completed { for d in e.deps.iter() { if let Target::Task(u) = d.target { stack.push(u); } } } }
      }
      if !written.is_empty() && held.iter().any(|t| self.ledger[*t].as_ref().map(|e| e.completed && e.deps.iter().any(|d| matches!(d.target, Target::Res(r) if written.contains(&r)))).unwrap_or(false)) { carry.tainted = true; self.stats.hit("probe_aborted_build_modified_input_of_consistent_task"); if std::env::var("VERIF_DEBUG_TAINT").is_ok() { eprintln!("TAINT step={step} written={:?} held={:?} validated={:?}", written, held, carry.validated); } }
    }

    // Abort handling.
    let store_differs = if res.abort.is_some() && last { self.check_store_dump(step, true) } else { false };
    if let Some(abort) = &res.abort {
      self.aborted_earlier = self.aborted_before;
      self.aborted_before = true;
      self.abort_dirty = true;
      // The world must hold exactly the writes that the task-side log says happened.
      let mut expect = before.clone();
      for e in slice.iter() { if let Ev::ResSet { res, new, .. } | Ev::MidChange { res, new } = e { if let Some(i) = prog.res_index(*res) { expect[i] = *new; } } }
      let real = self.world_after(last, &before, &slice);
      if real != expect { self.viol(&["C19"], "abort-world", step, format!("after the aborted build the resources hold {:?}, the writes that happened give {:?}", real, expect)); }
      self.stats.hit(&format!("abort_{:?}", abort.kind));
      fnv(&mut self.trace, 0xAB0 + abort.kind.clone() as u64);
      let injected_errors = with_sim(|s| s.errors_injected.len());
      // (In a well-formed program nothing else can abort a build, unless an earlier abort left partial records behind:
      // what those cause is judged under C19 / C20.)
      if injected_errors > 0 && abort.kind != AbortKind::InjectedCrash && !self.aborted_earlier && prog.class == Class::W {
        self.viol(&["C18"], "check-error-aborted-build", step, format!("a checker error during validation aborted the build: {}", abort.info.short()));
      }
      match abort.kind {
        AbortKind::InjectedCrash => { self.crashes_fired += 1; self.stats.hit("fault_crash_fired"); }
        AbortKind::TaskPanic => { if matches!(prog.class, Class::W | Class::V) { self.harness_error = Some(format!("class W program panicked: {}", abort.info.short())); } }
        AbortKind::Guard => {
          // After an earlier abort this is also C19's business: the instance must stay sound.
          let props: &[&str] = if self.aborted_earlier { &["C07", "C19"] } else { &["C07"] };
          self.viol(props, "unbounded-recursion", step, format!("execution depth / count guard fired: {}", abort.info.short()));
        }
        AbortKind::Internal => {
          let props: &[&str] = if self.aborted_earlier { &["C19"] } else { &["C20"] };
          self.viol(props, "internal-panic", step, format!("build failed with an internal error: {}", abort.info.short()));
        }
        AbortKind::Cycle | AbortKind::Hidden | AbortKind::Overlap => {
          self.diag_aborts += 1;
          // In a session that goes on reusing a task whose input an aborted build of the same session modified, the
          // tasks no longer behave as they would in a from-scratch build of the current state: nothing to compare with.
          // Likewise after an external change inside the open session: an execution that ran on a memoised output
          // (and would have been repaired later in the build) can leave records that no state of the program produces.
          // And in a bottom-up session that follows an abort (before a returning session has required all known tasks
          // again): no property claims such builds (11.2); tasks may legitimately have run on inputs that the aborted
          // build left half-updated.
          let unclaimed_bu_after_abort = matches!(kind, SessionKind::BottomUp { .. }) && dirty_at_start;
          // What holds regardless (C06): a writer blamed for its own earlier write.
          let limited = tainted_before || unclaimed_bu_after_abort || slice.iter().any(|e| matches!(e, Ev::MidChange { .. }));
          if limited { self.stats.hit("abort_in_tainted_session_not_judged"); }
          self.judge_diagnostic_abort(step, abort, &analysis, &before, &real, store_differs, limited);
        }
        AbortKind::Other => { self.harness_error = Some(format!("unexpected panic outside the repository: {}", abort.info.short())); }
      }
      // What the aborted build wrote has changed: it belongs to the next report to a bottom-up build ("every resource
      // that changed"), like the writes of a partial top-down session.
      for e in slice.iter() { if let Ev::ResSet { res, .. } = e { if let Some(i) = prog.res_index(*res) { self.changed.insert(i); } } }
      // After an abort the real world is the truth.
      self.shadow = real;
      self.all_consistent = false;
      self.last_bu_complete = false;
      return false;
    }

    if last { let _ = self.check_store_dump(step, false); }
    if self.vs.iter().any(|v| v.concerns(self.prop)) { return true; }

    // The session returned: from-scratch equality (the external state includes what was edited while the session was open).
    let roots: Vec<Tid> = res.roots_out.iter().map(|(t, _)| *t).collect();
    let mut before = before;
    let mid_session = slice.iter().any(|e| matches!(e, Ev::MidChange { .. }));
    // The state against which the last build of such a session ran: everything written before the change (by the
    // earlier builds of the session) and the change itself.
    if let Some(last_mid) = slice.iter().rposition(|e| matches!(e, Ev::MidChange { .. })) {
      for e in slice[..=last_mid].iter() { if let Ev::ResSet { res, new, .. } | Ev::MidChange { res, new } = e { if let Some(i) = prog.res_index(*res) { before[i] = *new; } } }
    }
    if mid_session { self.stats.hit("fault_external_change_inside_open_session"); }
    let mut clean = Clean::new(&prog, before.clone());
    let (check_world, clean_roots): (bool, Vec<Tid>) = match &kind {
      SessionKind::TopDown(_) => (true, roots.clone()),
      SessionKind::BottomUp { complete, .. } => {
        // A completely reported bottom-up build brings every known task up to date.
        let mut all: Vec<Tid> = self.known.iter().copied().collect();
        for t in roots.iter() { if !all.contains(t) { all.push(*t); } }
        (*complete && stale_before.is_empty(), all)
      }
    };
    let mut expected: BTreeMap<Tid, Out> = BTreeMap::new();
    for t in clean_roots.iter() { let o = clean.require(*t); expected.insert(*t, o); }
    if matches!(prog.class, Class::W | Class::V) && !clean.ill.is_empty() {
      self.harness_error = Some(format!("class {:?} program is ill-formed in a visited state: {:?}", prog.class, clean.ill));
      return true;
    }
    for t in clean.order.iter() { self.known.insert(*t); }
    let executed: Vec<Tid> = slice.iter().filter_map(|e| if let Ev::ExecStart { t, .. } = e { Some(*t) } else { None }).collect();
    for t in executed.iter() { self.known.insert(*t); }
    if !executed.is_empty() && executed.len() < clean.order.len() { self.reuse_and_exec = true; if matches!(kind, SessionKind::BottomUp { .. }) { self.bu_nontrivial = true; } }
    if self.aborted_before && matches!(kind, SessionKind::TopDown(_)) { self.td_after_abort_returned += 1; }

    // Bottom-up builds after an abort are claimed by no property (C03 does not quantify over aborts, C19 speaks about
    // later top-down builds) until a returning session has required all known tasks again.
    // ... and after a partial top-down session left requirers stale (recorded finding, decided by the probe oracle).
    let unclaimed_bu = matches!(kind, SessionKind::BottomUp { .. }) && (dirty_at_start || !stale_before.is_empty());
    let tainted = unclaimed_bu || carried_unclaimed || (!fault_free && (fault.read_err_at.is_some() || fault.write_err_at.is_some()));
    if clean.ill.is_empty() && !tainted {
      // Outputs handed out before an external change inside the session belong to the state before that change.
      let stale_roots = slice.iter().position(|e| matches!(e, Ev::MidChange { .. })).map(|m| slice[..m].iter().filter(|e| matches!(e, Ev::RootEnd { .. })).count()).unwrap_or(0);
      for (t, out) in res.roots_out.iter().skip(stale_roots) {
        if expected.get(t) != Some(out) {
          let props: &[&str] = match &kind { SessionKind::TopDown(_) => &["C01"], SessionKind::BottomUp { .. } => &["C01", "C03"] };
          let props: Vec<&str> = if self.aborted_before && matches!(kind, SessionKind::TopDown(_)) { let mut p = props.to_vec(); p.push("C19"); p } else { props.to_vec() };
          self.viol(&props, "O1-output", step, format!("require of task {t} returned {:?} but a from-scratch build of the current state returns {:?}", out, expected.get(t)));
          return true;
        }
      }
      if check_world {
        let real = self.world_after(last, &before, &slice);
        for r in 0..real.len() {
          let written = clean.writer_of.get(&r).copied();
          let equal = match written {
            Some(w) => {
              // Equality under the projection of the writer's checker.
              let chk = write_checker_of(&prog, w, r).unwrap_or(RK::Exact);
              chk.observe(real[r]) == chk.observe(clean.world[r])
            }
            // Not written by the from-scratch build: untouched. (In a session with an external change inside it, an
            // execution that ran on a memoised output and was repaired later in the same build may have left a write
            // behind that no from-scratch build makes; C03 speaks about outputs, C01 about resources that the tasks of
            // the from-scratch build write.)
            None => real[r] == before[r] || (mid_session && slice.iter().any(|e| matches!(e, Ev::ResSet { res, .. } if prog.res_index(*res) == Some(r)))),
          };
          if !equal {
            let props: &[&str] = match &kind { SessionKind::TopDown(_) => &["C01"], SessionKind::BottomUp { .. } => &["C03"] };
            let props: Vec<&str> = if self.aborted_before && matches!(kind, SessionKind::TopDown(_)) { let mut p = props.to_vec(); p.push("C19"); p } else { props.to_vec() };
            self.viol(&props, "O1-world", step, format!("resource {r} ({:?}) holds {:?} after the build; from-scratch: {:?} (before: {:?}, clean writer: {:?})", prog.resources[r], real[r], clean.world[r], before[r], written));
            return true;
          }
        }
      }
      // Minimality against the clean build (exact checkers only).
      if prog.exact_only && fault_free && matches!(kind, SessionKind::TopDown(_)) && !self.aborted_before {
        let cs: BTreeSet<Tid> = clean.order.iter().copied().collect();
        for t in executed.iter() {
          if !cs.contains(t) {
            self.viol(&["C02"], "O2d-unnecessary-execution", step, format!("task {t} was executed although a from-scratch build of the current state does not execute it (executed {:?}, clean {:?})", executed, clean.order));
            return true;
          }
        }
      }
    }
    // The real world is the truth from here on (coarse write checkers may legitimately differ from the clean world).
    self.shadow = self.world_after(last, &before, &slice);

    // Bookkeeping of "all known tasks consistent".
    match &kind {
      SessionKind::TopDown(_) => {
        let all: bool = self.known.iter().all(|t| roots.contains(t));
        if all { self.changed.clear(); self.all_consistent = true; self.abort_dirty = false; self.td_partial_exec.clear(); }
        else {
          for e in slice.iter() { if let Ev::ExecStart { t, n, .. } = e { if *n > 1 { self.td_partial_exec.insert(*t); } } }
          // Resources written by tasks in a partial top-down session count as changed for later bottom-up reports.
          for e in slice.iter() { if let Ev::ResSet { res, .. } = e { if let Some(i) = prog.res_index(*res) { self.changed.insert(i); } } }
        }
        self.last_bu_complete = false;
      }
      SessionKind::BottomUp { complete, .. } => {
        if *complete { self.changed.clear(); self.all_consistent = true; self.last_bu_complete = true; }
        // Re-executions in the top-down phase after the build (possible under injected checker errors) are a partial
        // top-down session: what they wrote counts as changed.
        let bu_end = slice.iter().rposition(|e| matches!(e, Ev::BuEnd)).unwrap_or(slice.len());
        let mut reexec = false;
        for e in slice[bu_end..].iter() {
          if let Ev::ExecStart { n, .. } = e { if *n > 1 { reexec = true; } }
          if let Ev::ResSet { res, .. } = e { if reexec { if let Some(i) = prog.res_index(*res) { self.changed.insert(i); } } }
        }
        if reexec { self.last_bu_complete = false; self.all_consistent = false; for e in slice[bu_end..].iter() { if let Ev::ExecStart { t, n, .. } = e { if *n > 1 { self.td_partial_exec.insert(*t); } } } }
      }
    }
    true
  }


  /// Direct probes of trait-object equality across key families with identical representation, hash and Debug text.
  fn identity_probes(&mut self) {
    use std::hash::{Hash, Hasher};
    let prog = self.prog.clone();
    let tkeys: Vec<(TaskKey, Box<dyn KeyObj>)> = prog.tasks.iter().map(|t| (t.key, task_key_obj(t.key))).collect();
    let rkeys: Vec<(ResKey, Box<dyn KeyObj>)> = prog.resources.iter().map(|r| (*r, res_key_obj(*r))).collect();
    let h = |k: &dyn KeyObj| { let mut st = std::collections::hash_map::DefaultHasher::new(); k.hash(&mut st); st.finish() };
    for (a, ka) in tkeys.iter() {
      for (b, kb) in tkeys.iter() {
        let eq = ka.as_ref() == kb.as_ref();
        if eq != (a == b) { self.viol(&["C15"], "key-equality", 0, format!("task keys {:?} and {:?} compare equal = {eq} as trait objects", a, b)); return; }
        if a == b && h(ka.as_ref()) != h(kb.as_ref()) { self.viol(&["C15"], "key-hash", 0, format!("equal task keys {:?} hash differently", a)); return; }
      }
      for (b, kb) in rkeys.iter() {
        if ka.as_ref() == kb.as_ref() { self.viol(&["C15"], "key-equality", 0, format!("task key {:?} equals resource key {:?} as trait objects", a, b)); return; }
      }
    }
    for (a, ka) in rkeys.iter() {
      for (b, kb) in rkeys.iter() {
        let eq = ka.as_ref() == kb.as_ref();
        if eq != (a == b) { self.viol(&["C15"], "key-equality", 0, format!("resource keys {:?} and {:?} compare equal = {eq} as trait objects", a, b)); return; }
      }
    }
    // Field-less key types: boxed (or promoted) values of zero-sized types all live at one dangling address, so any
    // identity shortcut by address confuses different types.
    {
      #[derive(Clone, PartialEq, Eq, Hash, Debug)] struct Z1;
      #[derive(Clone, PartialEq, Eq, Hash, Debug)] struct Z2;
      let boxed: Vec<(u8, Box<dyn KeyObj>)> = vec![(1, Box::new(Z1)), (2, Box::new(Z2)), (1, Box::new(Z1)), (3, Box::new(())), (2, Box::new(Z2))];
      for (ta, ka) in boxed.iter() {
        for (tb, kb) in boxed.iter() {
          let eq = ka.as_ref() == kb.as_ref();
          if eq != (ta == tb) { self.viol(&["C15"], "key-equality", 0, format!("boxed field-less keys of types #{ta} and #{tb} compare equal = {eq} as trait objects")); return; }
          if ta == tb && h(ka.as_ref()) != h(kb.as_ref()) { self.viol(&["C15"], "key-hash", 0, format!("equal field-less keys of type #{ta} hash differently")); return; }
        }
      }
      let (l1, l2): (&dyn KeyObj, &dyn KeyObj) = (&Z1, &Z2);
      if l1 == l2 || l1 != l1 { self.viol(&["C15"], "key-equality", 0, "field-less keys of different types compare equal through references".to_string()); return; }
      // The same through a hash map keyed by boxed keys, as pie's store uses them.
      let mut m: std::collections::HashMap<Box<dyn KeyObj>, u8> = std::collections::HashMap::new();
      for (t, k) in boxed.iter() { m.entry(k.clone()).or_insert(*t); }
      if m.len() != 3 || boxed.iter().any(|(t, k)| m.get(k) != Some(t)) { self.viol(&["C15"], "key-equality", 0, format!("a map keyed by boxed keys of 3 field-less types holds {} entries or returns another type's entry", m.len())); return; }
    }
    self.stats.hit("identity_probes");
  }

  /// O8: the guarded store dump must equal the ledger of latest executions.
  fn check_store_dump(&mut self, step: usize, after_abort: bool) -> bool {
    use pie::verif::EdgeKind;
    let prog = self.prog.clone();
    // The dump walks pie's own adjacency lists and edge data; when those disagree with each other (an edge listed
    // without data, a dangling node) the walk panics exactly as pie's own accessors would.
    let dump = match catch(|| self.pie.verif_dump_store()) {
      Ok(d) => d,
      Err(info) => {
        let mut props = vec!["C08", "C10"];
        if self.aborted_before || after_abort { props.push("C19"); }
        let v = Violation::new(&props, "store-inconsistent", step, format!("pie's dependency store is internally inconsistent (walking all nodes and edges fails): {}", info.short()));
        if self.vs.len() < 16 && !self.vs.iter().any(|x| x.oracle == "store-inconsistent") { self.vs.push(v); }
        return true;
      }
    };
    let keys: Vec<KeyR> = dump.nodes.iter().map(|n| super::trk::render_key(n.key.as_ref())).collect();
    let mut problem: Option<(String, String)> = None; // (message, signature)
    // Symmetry of incoming / outgoing adjacency.
    for (i, n) in dump.nodes.iter().enumerate() {
      for e in n.outgoing.iter() { if !dump.nodes[e.target].incoming.contains(&i) { problem = Some((format!("edge {:?} -> {:?} is missing from the target's incoming edges", keys[i], keys[e.target]), String::new())); } }
      for s in n.incoming.iter() { if !dump.nodes[*s].outgoing.iter().any(|e| e.target == i) { problem = Some((format!("incoming edge {:?} -> {:?} has no outgoing counterpart", keys[*s], keys[i]), String::new())); } }
      if n.rank == 0 || n.rank as usize > dump.nodes.len() { problem = Some((format!("node {:?} has rank {} of {}", keys[i], n.rank, dump.nodes.len()), String::new())); }
    }
    let n_tasks = dump.nodes.iter().filter(|n| n.is_task).count();
    if dump.task_map_len != n_tasks || dump.resource_map_len != dump.nodes.len() - n_tasks {
      problem = Some((format!("store maps hold {} tasks / {} resources but the graph has {} / {} nodes", dump.task_map_len, dump.resource_map_len, n_tasks, dump.nodes.len() - n_tasks), String::new()));
    }
    // One node per key.
    for i in 0..keys.len() { for j in 0..i { if keys[i] == keys[j] { problem = Some((format!("two nodes for key {:?}", keys[i]), String::new())); } } }
    for t in 0..prog.tasks.len() {
      if problem.is_some() { break; }
      let key = KeyR::Task(prog.tasks[t].key);
      let node = keys.iter().position(|k| *k == key);
      let Some(rec) = self.ledger[t].as_ref() else {
        if let Some(ni) = node { if !dump.nodes[ni].outgoing.is_empty() || dump.nodes[ni].output.is_some() { problem = Some((format!("task {t} never started executing but its node has {} dependencies / output {:?}", dump.nodes[ni].outgoing.len(), dump.nodes[ni].output), String::new())); } }
        continue;
      };
      let Some(ni) = node else { problem = Some((format!("task {t} has executed but has no node in the store"), String::new())); break; };
      let n = &dump.nodes[ni];
      if !n.is_task { problem = Some((format!("node of task {t} is not a task node"), String::new())); break; }
      let out = n.output.as_ref().map(|o| super::trk::render_val(o.as_ref()));
      let exp_out = if rec.completed { rec.out.map(ValR::Out) } else { None };
      if out != exp_out { problem = Some((format!("store caches output {:?} for task {t}; its latest execution {} {:?}", out, if rec.completed { "returned" } else { "was aborted, expected" }, exp_out), String::new())); break; }
      // Edges.
      let real: Vec<&pie::verif::EdgeDump> = n.outgoing.iter().filter(|e| e.kind != EdgeKind::ReservedRequire).collect();
      let reserved: Vec<KeyR> = n.outgoing.iter().filter(|e| e.kind == EdgeKind::ReservedRequire).map(|e| keys[e.target].clone()).collect();
      if rec.completed && !reserved.is_empty() { problem = Some((format!("task {t} completed but keeps reserved require edges to {:?}", reserved), String::new())); break; }
      if !rec.completed {
        let mut expect: Vec<KeyR> = rec.req_issued.iter().filter(|u| !rec.deps.iter().any(|d| d.target == Target::Task(**u))).map(|u| KeyR::Task(prog.tasks[*u].key)).collect();
        let mut got = reserved.clone();
        expect.sort_by_key(|k| format!("{:?}", k));
        got.sort_by_key(|k| format!("{:?}", k));
        if expect != got { problem = Some((format!("aborted task {t} holds reserved require edges to {:?}; the requires that were in progress when it was aborted are {:?}", got, expect), String::new())); break; }
      }
      if real.len() != rec.deps.len() {
        problem = Some((format!("store holds {} dependencies for task {t}, its latest execution created {}: store targets {:?}, ledger targets {:?}", real.len(), rec.deps.len(), real.iter().map(|e| keys[e.target].clone()).collect::<Vec<_>>(), rec.deps.iter().map(|d| d.target).collect::<Vec<_>>()), String::new()));
        break;
      }
      for (pos, (e, d)) in real.iter().zip(rec.deps.iter()).enumerate() {
        let tkey = match d.target { Target::Task(u) => KeyR::Task(prog.tasks[u].key), Target::Res(r) => KeyR::Res(r) };
        if keys[e.target] != tkey {
          if rec.completed { problem = Some((format!("dependency {pos} of task {t} in the store targets {:?}, the execution created {:?} at that position (store order {:?})", keys[e.target], tkey, real.iter().map(|e| keys[e.target].clone()).collect::<Vec<_>>()), String::new())); }
          break;
        }
        let (chk, stamp) = match (e.checker.as_ref(), e.stamp.as_ref()) {
          (Some(c), Some(s)) => { let p = super::trk::render_pair(c.as_ref(), s.as_ref()); (Some(p.0), Some(p.1)) }
          (c, s) => (c.map(|c| super::trk::render_val(c.as_ref())), s.map(|c| super::trk::render_val(c.as_ref()))),
        };
        let serial = match &stamp { Some(ValR::RStamp(s)) => s.serial, Some(ValR::OStamp(s)) => s.serial, _ => 0 };
        let Some(ai) = d.serials.iter().position(|s| *s == serial) else {
          problem = Some((format!("dependency {pos} of task {t} ({:?}) carries stamp {:?}, which its latest execution did not create (its stamps: {:?})", tkey, stamp, d.serials), String::new()));
          break;
        };
        let (akind, arch, aoch) = d.accesses[ai];
        let kind_ok = matches!((e.kind, akind), (EdgeKind::Require, DepKind::Require) | (EdgeKind::Read, DepKind::Read) | (EdgeKind::Write, DepKind::Write));
        let chk_ok = match (&chk, arch, aoch) { (Some(ValR::RChk(c)), Some(k), _) => c.kind == k, (Some(ValR::OChk(c)), _, Some(k)) => c.kind == k, _ => false };
        if !kind_ok || !chk_ok { problem = Some((format!("dependency {pos} of task {t} ({:?}) is recorded as {:?} with checker {:?}; the access was {:?} with {:?}/{:?}", tkey, e.kind, chk, akind, arch, aoch), String::new())); break; }
        // Several accesses to one target with different checkers or kinds: only one can be recorded.
        let distinct = d.accesses.iter().any(|a| *a != d.accesses[0]);
        if distinct && rec.completed {
          let which = if ai == 0 { "first-kept" } else if ai + 1 == d.accesses.len() { "last-kept" } else { "middle-kept" };
          let sig = format!("multi-checker:{:?}:{which}", akind).to_lowercase();
          problem = Some((format!("task {t} declared {} dependencies on {:?} with different checkers {:?}; the store keeps only one of them", d.accesses.len(), tkey, d.accesses), sig));
          break;
        }
      }
    }
    if let Some((msg, sig)) = problem {
      let props: &[&str] = if sig.is_empty() { &["C08", "C15"] } else { &["C08", "C09"] };
      let unexplained = sig.is_empty();
      let v = Violation::new(props, "store-dump", step, msg).with_sig(&sig);
      if self.vs.len() < 16 { self.vs.push(v); }
      return unexplained;
    }
    false
  }

  /// A build aborted with a cycle / hidden-dependency / overlapping-write diagnostic: decide whether the violation
  /// exists in the current state (fine), is explained by recorded dependencies of tasks that were not yet validated
  /// in this session (stale-edge signature: a listed known finding or a violation), or is unexplained (violation).
  fn judge_diagnostic_abort(&mut self, step: usize, abort: &Abort, an: &Analysis, before: &[Option<Val>], world_now: &[Option<Val>], store_differs: bool, limited: bool) {
    let prog = self.prog.clone();
    let world = world_now.to_vec();
    let mut clean = Clean::new(&prog, world);
    let mut all: Vec<Tid> = self.known.iter().copied().collect();
    for t in an.exec_stack.iter() { if !all.contains(t) { all.push(*t); } }
    for t in all.iter() { clean.require(*t); }
    // A from-scratch build meets violations in an order that depends on the order of its roots: also try the reverse.
    let mut clean_rev = Clean::new(&prog, world_now.to_vec());
    for t in all.iter().rev() { clean_rev.require(*t); }
    // The aborted build may itself have modified resources: the state in which it started counts as well.
    let mut clean_b = Clean::new(&prog, before.to_vec());
    for t in all.iter() { clean_b.require(*t); }
    let mut clean_b_rev = Clean::new(&prog, before.to_vec());
    for t in all.iter().rev() { clean_b_rev.require(*t); }
    let exists_now = clean.ill.iter().chain(clean_rev.ill.iter()).chain(clean_b.ill.iter()).chain(clean_b_rev.ill.iter()).any(|i| match abort.kind {
      AbortKind::Cycle => i.is_cycle(),
      AbortKind::Hidden => i.is_hidden() || matches!(i, Ill::ReadBeforeWrite { .. }),
      AbortKind::Overlap => i.is_overlap(),
      _ => false,
    });
    if std::env::var("VERIF_DEBUG_JUDGE").is_ok() { eprintln!("JUDGE kind={:?} all={:?} world_now={:?} before={:?} ill_now={:?} ill_rev={:?} ill_b={:?} ill_brev={:?} order_now={:?}", abort.kind, all, world_now, before, clean.ill, clean_rev.ill, clean_b.ill, clean_b_rev.ill, clean.order); }
    if exists_now && !limited { self.stats.hit("abort_for_existing_violation"); return; }
    let props: Vec<&str> = if self.aborted_earlier { vec!["C19", "C20"] } else { vec!["C20"] };
    let Some((t, op, target)) = an.open_op else {
      if limited { return; }
      self.viol(&props, "abort-without-site", step, format!("diagnostic abort outside any context call: {}", abort.info.short()));
      return;
    };
    let none_old: Vec<Option<ExecRec>> = vec![None; prog.tasks.len()];
    let fresh = |x: Tid| an.executed.contains(&x) || an.validated_ok.contains(&x);
    let any_aborted_record = (0..prog.tasks.len()).any(|x| !an.exec_stack.contains(&x) && self.ledger[x].as_ref().map(|e| !e.completed).unwrap_or(false));
    let suffix = if any_aborted_record { "+abort" } else { "" };
    let reads = |x: Tid, r: ResKey| self.ledger[x].as_ref().map(|e| e.deps.iter().any(|d| d.kind == DepKind::Read && d.target == Target::Res(r))).unwrap_or(false);
    let writes = |x: Tid, r: ResKey| self.ledger[x].as_ref().map(|e| e.deps.iter().any(|d| d.kind == DepKind::Write && d.target == Target::Res(r))).unwrap_or(false);
    let ntasks = prog.tasks.len();
    let mut cause: Option<String> = None;
    let mut stale_owners: Vec<Tid> = vec![];
    match (&abort.kind, op, target) {
      (AbortKind::Overlap, OpK::Write | OpK::WriteVia, Target::Res(r)) => {
        if let Some(w) = (0..ntasks).find(|x| *x != t && writes(*x, r)) {
          if !fresh(w) { cause = Some("overlap:stale-writer".into()); stale_owners.push(w); }
        } else {
          let own_prev = self.prev[t].as_ref().map(|e| e.deps.iter().any(|d| d.kind == DepKind::Write && d.target == Target::Res(r))).unwrap_or(false);
          let own_now = self.ledger[t].as_ref().map(|e| e.deps.iter().any(|d| d.kind == DepKind::Write && d.target == Target::Res(r))).unwrap_or(false);
          if own_prev && !own_now {
            let mut p2 = props.clone();
            p2.push("C06");
            self.viol(&p2, "overlap-with-own-earlier-write", step, format!("re-execution of task {t}, the only recorded writer of {:?}, was reported as an overlapping write: {}", r, abort.info.short()));
            return;
          }
        }
      }
      _ if limited => { return; }
      (AbortKind::Hidden, OpK::Write | OpK::WriteVia, Target::Res(r)) => {
        let ri = prog.res_index(r);
        for x in (0..ntasks).filter(|x| *x != t && reads(*x, r)) {
          if !ledger_path(&self.ledger, &none_old, x, t) {
            if !fresh(x) {
              let reads_now = ri.map(|ri| clean.readers.get(&ri).map(|v| v.contains(&x)).unwrap_or(false)).unwrap_or(false);
              cause = Some(if reads_now { "hidden:stale-path".into() } else { "hidden:stale-reader".into() });
              stale_owners.push(x);
            }
            break;
          }
        }
      }
      (AbortKind::Hidden, OpK::Read, Target::Res(r)) => {
        if let Some(w) = (0..ntasks).find(|x| *x != t && writes(*x, r)) {
          if !ledger_path(&self.ledger, &none_old, t, w) {
            if !fresh(w) { cause = Some("hidden:stale-writer".into()); stale_owners.push(w); }
            else {
              // The writer is current; the reader's path to it runs through tasks whose records are stale or partial.
              let ri = prog.res_index(r);
              let writes_now = ri.map(|ri| clean.writer_of.get(&ri) == Some(&w)).unwrap_or(false);
              if writes_now && clean.path(t, w) && (0..ntasks).any(|x| !fresh(x) && !an.exec_stack.contains(&x)) { cause = Some("hidden:stale-path".into()); }
            }
          }
        }
      }
      (AbortKind::Cycle, OpK::Require, Target::Task(u)) => {
        // Explained by the records iff u reaches t through recorded require edges; stale iff an edge owner is not fresh.
        if ledger_path(&self.ledger, &none_old, u, t) || u == t {
          let mut stale_owner = false;
          // Search for a path and look at its owners.
          let mut seen = BTreeSet::new();
          let mut stack = vec![u];
          while let Some(x) = stack.pop() {
            if !seen.insert(x) { continue; }
            if !fresh(x) && !an.exec_stack.contains(&x) { stale_owner = true; stale_owners.push(x); }
            if let Some(e) = self.ledger[x].as_ref() { for y in e.req_issued.iter() { stack.push(*y); } }
          }
          if stale_owner { cause = Some("cycle:stale-require".into()); }
        }
      }
      _ => {}
    }
    if limited { return; }
    // In a bottom-up build a stale record of a task that is still scheduled, and that the aborting task (transitively)
    // required, should have been replaced first: that is an ordering failure, not a stale-edge finding.
    if cause.is_some() {
      // Only the requires that task t had recorded before this execution count for the order in which it was taken.
      // A task whose previous execution was aborted has no output: a bottom-up build executes it on the spot as a new
      // task when it is required, without looking at the queue (no property claims an order for such tasks).
      let old_first_hops: Vec<Tid> = self.prev[t].as_ref().filter(|e| e.completed).map(|e| e.req_issued.clone()).unwrap_or_default();
      let none_old2: Vec<Option<ExecRec>> = vec![None; prog.tasks.len()];
      if let Some(q) = an.pending.iter().find(|q| **q != t && old_first_hops.iter().any(|h| h == *q || (*h != t && ledger_path(&self.ledger, &none_old2, *h, **q)))) {
        let mut p2 = props.clone();
        p2.push("C04");
        self.viol(&p2, "abort-by-unordered-stale-record", step, format!("bottom-up build aborted on a stale record while task {q}, which the aborting task {t} (transitively) requires, was still scheduled and should have been executed first: {}", abort.info.short()));
        return;
      }
    }
    // A record of a task whose validation had already met an inconsistent dependency is not a "not yet validated"
    // record: validation stops there and the task is re-executed (its record replaced) before anything else of it is
    // looked at. An abort that such a record explains comes from validation having gone on.
    if cause.is_some() {
      if let Some(o) = stale_owners.iter().find(|o| an.incons_open.contains(o)) {
        let mut p2 = props.clone();
        p2.push("C02");
        self.viol(&p2, "abort-by-record-of-task-found-inconsistent", step, format!("build aborted on a recorded dependency of task {o} although the validation of task {o} had already met an inconsistent dependency in this build (it has to be re-executed, which replaces its record, before its remaining dependencies are looked at): {}", abort.info.short()));
        return;
      }
    }
    // A stale-edge explanation is only accepted when pie's store holds exactly the recorded dependencies.
    if store_differs && cause.is_some() {
      self.viol(&props, "abort-with-store-differing-from-records", step, format!("build aborted with a diagnostic while the dependency store differs from the dependencies that the tasks' latest executions created: {}", abort.info.short()));
      return;
    }
    match cause {
      Some(c) => {
        let sig = format!("{c}{suffix}");
        self.stats.hit(&format!("stale_edge_abort:{sig}"));
        let v = Violation::new(&props, "spurious-abort", step, format!("build aborted although the current state contains no such violation ({sig}): {}", abort.info.short())).with_sig(&sig);
        if self.vs.len() < 16 { self.vs.push(v); }
      }
      None => {
        self.viol(&props, "unexplained-abort", step, format!("build aborted with a diagnostic that neither the current behaviour of the tasks nor their recorded dependencies explain: {}", abort.info.short()));
      }
    }
  }

  /// Walks the log slice of one session: updates the ledger and evaluates the log-based oracles.
  fn analyse(&mut self, step: usize, kind: &SessionKind, slice: &[Ev], res: &SessionResult, is_repeat: bool, fault_free: bool, last: bool, carry: &Carry, before: &[Option<Val>]) -> Analysis {
    let prog = self.prog.clone();
    let ntasks = prog.tasks.len();
    let aborted = res.abort.is_some();
    // A checker that is inconsistent although nothing changed (zero-sized-stamp kinds: volatile, bound exceeded) makes its
    // owner run in every build: "executes nothing when nothing changed" is not a statement about such programs.
    fn has_zst(ops: &[Op]) -> bool { ops.iter().any(|o| match o { Op::Read { chk, .. } => chk.is_zst(), Op::Require { chk, .. } => chk.is_zst(), Op::If { then, els, .. } => has_zst(then) || has_zst(els), Op::Switch { cases, .. } => cases.iter().any(|c| has_zst(c)), _ => false }) }
    let zst_program = prog.tasks.iter().any(|t| has_zst(&t.ops));
    let is_repeat = is_repeat && !zst_program;
    let probe_after_bu = matches!(kind, SessionKind::TopDown(_)) && self.last_bu_complete && self.changed.is_empty() && fault_free && !zst_program;
    let mut in_bu_phase = false;
    // After an external change inside the open session the session's memo of consistent tasks is out of date: pie
    // may hand out a memoised output to a requiring task and repair that later in the same build (second execution).
    // Only the end state is claimed then (O1 / O3); the per-build once / order / reuse rules are suspended.
    let (mut mid_seen, mut mid_idx) = (false, 0usize);
    let mut builds_started = 0u32;
    let mut exec_count = vec![0u32; ntasks];
    let mut executed: BTreeSet<Tid> = BTreeSet::new();
    let mut old: Vec<Option<ExecRec>> = vec![None; ntasks];
    // Top-down validation pass per task: (next index, ended inconsistent, complete)
    #[derive(Clone, Default)]
    struct Pass { next: usize, ended_incons: bool, started: bool, by_error: bool, checked: BTreeSet<usize> }
    let mut pass: Vec<Pass> = vec![Pass::default(); ntasks];
    let mut validated_ok: BTreeSet<Tid> = carry.validated.clone();
    let mut bu_reused: BTreeSet<Tid> = BTreeSet::new();
    let mut pending: BTreeMap<Tid, bool> = BTreeMap::new(); // scheduled in bottom-up phase (value: by error)
    let mut exec_stack: Vec<Tid> = vec![];
    let mut op_stack: Vec<(Tid, OpK, Target, usize)> = vec![];
    let mut last_reader: Option<(u64, ResKey)> = None;
    let mut write_fn_done: Option<ResKey> = None;
    let mut violations: Vec<Violation> = vec![];
    let mut v = |props: &[&str], oracle: &str, msg: String| { if violations.len() < 8 { violations.push(Violation::new(props, oracle, step, msg)); } };
    let mut trace = self.trace;
    let mut errors_seen: Vec<u32> = vec![];
    let mut cutoff = false;
    let mut fam_access = [0u64; 5];
    let mut probes = [false; 7];
    let mut size_probes = [false; 3];
    let mut probe_stale: BTreeSet<Tid> = BTreeSet::new();
    let mut sig_violations: Vec<Violation> = vec![];
    let mut coarse_ignored = false;
    let mut zst_checked = false;
    let mut order_candidates: Vec<(Tid, Tid)> = vec![];
    // Tasks whose record at the start of the session is an aborted (output-less, partial) execution. A bottom-up build
    // can both schedule such a task through its leftover dependencies and execute it as a "new" task when it is
    // required; no listed property quantifies over bottom-up builds after an abort (C04: histories of reported
    // changes; C19: later top-down builds), so the once / justification rules are not applied to these tasks.
    let aborted_at_start: Vec<bool> = (0..ntasks).map(|t| self.ledger[t].as_ref().map(|e| !e.completed).unwrap_or(false)).collect();

    for (i, ev) in slice.iter().enumerate() {
      match ev {
        Ev::BuStart => {
          in_bu_phase = true;
          builds_started += 1;
          // "At most once" is a statement per build (C04) / per top-down session (C02). A task can legitimately run again in
          // the next build of the same session: under a persistent checker error, after an external change inside the
          // session, and when the session follows an abort (whose leftovers the first build only partly repairs). Every
          // execution still needs its inconsistent verdict (`bu-unjustified-execution`).
          for c in exec_count.iter_mut() { *c = 0; }
        }
        Ev::BuDropped => { in_bu_phase = false; pending.clear(); order_candidates.clear(); }
        Ev::BuScheduled => {
          // Every recorded read / write dependency on a reported resource must have been checked by now.
          if let SessionKind::BottomUp { report, .. } = kind {
            let checked: BTreeSet<u64> = slice[mid_idx..i].iter().filter_map(|e| if let Ev::RCheck { serial, .. } = e { Some(*serial) } else { None }).collect();
            // The build after a change inside the session received that batch as its report.
            let mid_report: Vec<usize> = if mid_seen { slice.iter().filter_map(|e| if let Ev::MidChange { res, .. } = e { prog.res_index(*res) } else { None }).collect() } else { vec![] };
            let report: &Vec<usize> = if mid_seen { &mid_report } else { report };
            'outer: for r in report.iter() {
              let key = prog.resources[*r];
              for t in 0..ntasks {
                let Some(rec) = self.ledger[t].as_ref() else { continue; };
                if !rec.completed { continue; }
                // A task that the session already holds as consistent (validated or executed earlier in this session)
                // needs no further check: resources do not change while a session is open.
                if !mid_seen && (executed.contains(&t) || validated_ok.contains(&t)) { continue; }
                for d in rec.deps.iter() {
                  if d.target == Target::Res(key) && !d.serials.iter().any(|s| checked.contains(s)) {
                    // After a checker error in this session the omission is (also) the error cutting validation short.
                    let after_error = slice[..i].iter().any(|e| matches!(e, Ev::RCheck { verdict: Verdict::Error(_), .. }));
                    v(if after_error { &["C03", "C08", "C09", "C18"] } else { &["C03", "C08", "C09"] }, "bu-reported-dependency-not-checked", format!("resource {:?} was reported to the bottom-up build but the {:?} dependency of task {t} on it was not checked", key, d.kind));
                    break 'outer;
                  }
                }
              }
            }
          }
        }
        Ev::BuEnd => {
          in_bu_phase = false;
          order_candidates.clear();
          if let Some((t, by_err)) = pending.iter().next() {
            let props: &[&str] = if *by_err { &["C18", "C03"] } else { &["C03", "C09"] };
            v(props, "bu-scheduled-not-executed", format!("a dependency of task {t} was found inconsistent during the bottom-up build but the task was not executed before the build ended"));
          }
        }
        Ev::ExecStart { t, n, bottom_up } => {
          fnv(&mut trace, 0xE00 + *t as u64 * 7 + *bottom_up as u64);
          let pass_before = pass[*t].clone();
          let deps_before: Vec<(DepKind, Target)> = self.ledger[*t].as_ref().map(|e| e.deps.iter().map(|d| (d.kind, d.target)).collect()).unwrap_or_default();
          exec_count[*t] += 1;
          if exec_count[*t] > 1 && !mid_seen {
            let props: &[&str] = if in_bu_phase { &["C04"] } else { &["C02"] };
            // A task that an earlier abort left without output can run twice in one bottom-up build (on the spot when it is
            // required, and again when it is popped: not claimed, see above); what its second run rewrites can make the
            // tasks that depend on it run a second time as well.
            if in_bu_phase && (aborted_at_start[*t] || probes[6]) { probes[6] = true; } else {
              v(props, "executed-twice", format!("task {t} entered execute {} times in one session", exec_count[*t]));
            }
          }
          if carry.completed.contains(t) {
            v(&["C02", "C19"], "executed-twice", format!("task {t} completed an execution earlier in this session (before a build of the session aborted) and was executed again"));
          }
          if exec_stack.contains(t) {
            v(if self.aborted_before { &["C07", "C19"] } else { &["C07"] }, "cycle-reentered", format!("task {t} was entered again while it is still executing (stack {:?})", exec_stack));
          }
          let prev_completed = self.ledger[*t].as_ref().map(|e| e.completed).unwrap_or(false);
          if prev_completed && !aborted_task(&self.ledger[*t]) {
            if in_bu_phase {
              match pending.get(t) {
                Some(_) => {}
                None if aborted_at_start[*t] => {}
                None => { v(&["C04", "C09"], "bu-unjustified-execution", format!("task {t} was executed in a bottom-up build although none of its recorded dependencies was found inconsistent and it had completed before")); }
              }
              // Order: no scheduled task that t (transitively) requires may still be waiting.
              for (q, _) in pending.iter() {
                // (previous records only of tasks that are executing right now: a completed re-execution has replaced its record)
                let old_live: Vec<Option<ExecRec>> = (0..ntasks).map(|x| if exec_stack.contains(&x) { old[x].clone() } else { None }).collect();
                if !mid_seen && q != t && ledger_path(&self.ledger, &old_live, *t, *q) { order_candidates.push((*t, *q)); }
              }
            } else {
              let p = &pass[*t];
              if !(p.started && p.ended_incons) {
                let props: &[&str] = if is_repeat { &["C02", "C09"] } else { &["C02", "C09"] };
                v(props, "td-unjustified-execution", format!("task {t} was executed although it had completed before and no recorded dependency was reported inconsistent in its validation (checked {} of {} dependencies)", p.next, self.ledger[*t].as_ref().map(|e| e.deps.len()).unwrap_or(0)));
              }
            }
          }
          if *bottom_up != in_bu_phase && false { /* context kind is informational */ }
          // A task that executes now confirms earlier order candidates in which it was the one still waiting.
          if in_bu_phase {
            if let Some((a, q)) = order_candidates.iter().find(|(_, q)| q == t).copied() {
              v(&["C04"], "bu-order", format!("task {a} was executed while task {q}, which it (transitively) requires, was still scheduled and was executed only afterwards"));
            }
          }
          // Reach probes.
          if exec_stack.len() + 1 >= 5 { size_probes[0] = true; }
          if in_bu_phase && pending.len() >= 5 { size_probes[1] = true; }
          if in_bu_phase {
            if pending.len() >= 3 { probes[0] = true; }
            if !exec_stack.is_empty() { if prev_completed { probes[1] = true; } else { probes[2] = true; } }
          }
          pending.remove(t);
          pass[*t] = Pass::default();
          old[*t] = self.ledger[*t].take();
          self.prev[*t] = old[*t].clone();
          self.ledger[*t] = Some(ExecRec { req_issued: vec![], n: *n, completed: false, out: None, deps: vec![], session: self.session_no });
          executed.insert(*t);
          exec_stack.push(*t);
          if is_repeat {
            v(&["C02"], "O2c-repeat-executed", format!("requiring again with nothing changed executed task {t}"));
          }
          if probe_after_bu && prev_completed {
            // The dependency whose inconsistency caused this execution.
            let p = &pass_before;
            let cause = if p.started && p.ended_incons && p.next > 0 { deps_before.get(p.next - 1).copied() } else { None };
            let stale_by_partial_td = match cause {
              Some((DepKind::Require, Target::Task(u))) => executed.contains(&u) && probe_stale.contains(&u) || self.td_partial_exec.contains(&u),
              // ... or, transitively, a resource that such a stale task (re)wrote when this probe made it catch up.
              Some((DepKind::Read | DepKind::Write, Target::Res(r))) => probe_stale.iter().any(|u| executed.contains(u) && self.ledger[*u].as_ref().map(|e| e.deps.iter().any(|d| d.kind == DepKind::Write && d.target == Target::Res(r))).unwrap_or(false)),
              _ => false,
            };
            if stale_by_partial_td {
              probe_stale.insert(*t);
              sig_violations.push(Violation::new(&["C03"], "O3-probe-executed", step, format!("after a completely reported bottom-up build, requiring known task {t} executed it: its require dependency {:?} was left stale by an earlier partial top-down session that re-executed the required task", cause)).with_sig("stale-requirer-after-partial-top-down"));
            } else {
              probe_stale.insert(*t);
              v(&["C03"], "O3-probe-executed", format!("after a completely reported bottom-up build, requiring known task(s) executed task {t} (cause {:?})", cause));
            }
          }
        }
        Ev::ExecEnd { t, n, out } => {
          fnv(&mut trace, 0xE50 + out_code(out) as u64);
          if let Some(e) = self.ledger[*t].as_mut() { if e.n == *n { e.completed = true; e.out = Some(*out); } }
          self.ever_completed[*t] = true;
          if exec_stack.last() == Some(t) { exec_stack.pop(); } else { v(&["C17"], "exec-nesting", format!("execution of task {t} ended out of order")); }
          // Early cut-off probe: output equal to the previous output although the task was re-executed.
          if let Some(o) = old[*t].as_ref() { if o.completed && o.out == Some(*out) { cutoff = true; } }
          if self.ledger[*t].as_ref().map(|e| e.deps.len() >= 6).unwrap_or(false) { size_probes[2] = true; }
          if let (Some(o), Some(nw)) = (old[*t].as_ref(), self.ledger[*t].as_ref()) {
            if o.completed {
              let a: BTreeSet<Target> = o.deps.iter().map(|d| d.target).collect();
              let b: BTreeSet<Target> = nw.deps.iter().map(|d| d.target).collect();
              if a != b { probes[3] = true; }
            }
          }
        }
        Ev::OpStart { t, op, target, .. } => {
          if let Target::Res(r) = target { fam_access[r.fam as usize % 5] += 1; }
          if let (OpK::Require, Target::Task(u)) = (op, target) {
            self.known.insert(*u);
            if let Some(e) = self.ledger[*t].as_mut() { if !e.req_issued.contains(u) { e.req_issued.push(*u); } }
            if exec_stack.contains(u) {
              // A require of a task on the execution stack must not return.
              op_stack.push((*t, *op, *target, 1));
              continue;
            }
          }
          op_stack.push((*t, *op, *target, 0));
        }
        Ev::OpEnd { t, ok, obs, .. } => {
          let Some((ot, op, target, cyc)) = op_stack.pop() else { continue; };
          if ot != *t { continue; }
          if cyc == 1 {
            v(&["C07"], "cycle-returned", format!("task {t} required {:?}, which was still executing, and the require returned a value", target));
          }
          if let (OpK::Require, Target::Task(u)) = (op, target) {
            // The output returned must be the output of the required task's latest completed execution.
            let cur = self.ledger[u].as_ref().and_then(|e| e.out);
            if cur.map(|o| out_code(&o)) != Some(*obs) && cyc == 0 {
              v(&["C01", "C15"], "require-output-mismatch", format!("task {t} required task {u} and received output code {obs}, but the latest completed execution of {u} produced {:?}", cur));
            }
            if in_bu_phase {
              if !executed.contains(&u) {
                bu_reused.insert(u);
                // Reuse during a bottom-up build: nothing scheduled may be reachable from u.
                for (q, _) in pending.iter() {
                  if mid_seen { break; }
                  let old_live: Vec<Option<ExecRec>> = (0..ntasks).map(|x| if exec_stack.contains(&x) { old[x].clone() } else { None }).collect();
                  if *q == u || ledger_path(&self.ledger, &old_live, u, *q) {
                    v(&["C03"], "bu-stale-reuse", format!("task {t} required task {u} during a bottom-up build and got its cached output although task {q}, which {u} (transitively) requires, was still scheduled"));
                    break;
                  }
                }
              }
            } else if !mid_seen && !executed.contains(&u) && !validated_ok.contains(&u) && !bu_reused.contains(&u) {
              let nd = self.ledger[u].as_ref().map(|e| e.deps.len()).unwrap_or(0);
              let p = &pass[u];
              if !(p.started && !p.ended_incons && p.checked.len() >= nd) && nd > 0 {
                if !aborted { v(&["C01", "C09"], "reuse-without-validation", format!("task {t} got the cached output of task {u}, which was neither executed nor completely validated in this session ({} of {nd} dependencies checked)", p.next)); }
              } else { validated_ok.insert(u); }
            }
          }
          if matches!(op, OpK::Write | OpK::WriteVia) && *ok { write_fn_done = None; }
          if let (true, Target::Res(r)) = (*ok, target) {
            // Online monitors: an access that returns must not leave a hidden dependency or an overlap in the records.
            let none_old: Vec<Option<ExecRec>> = vec![None; ntasks];
            let writes = |x: Tid| self.ledger[x].as_ref().map(|e| e.deps.iter().any(|d| d.kind == DepKind::Write && d.target == Target::Res(r))).unwrap_or(false);
            let reads = |x: Tid| self.ledger[x].as_ref().map(|e| e.deps.iter().any(|d| d.kind == DepKind::Read && d.target == Target::Res(r))).unwrap_or(false);
            if op == OpK::Read {
              if let Some(w) = (0..ntasks).find(|x| *x != *t && writes(*x)) {
                if !ledger_path(&self.ledger, &none_old, *t, w) {
                  v(&["C05"], "hidden-read-missed", format!("task {t} read {:?}, which task {w} wrote in its latest execution, without (transitively) requiring it, and the read returned", r));
                }
              }
            } else {
              if let Some(w) = (0..ntasks).find(|x| *x != *t && writes(*x)) {
                v(&["C06"], "overlap-missed", format!("task {t} wrote {:?}, whose recorded writer is task {w}, and the write returned", r));
              }
              for x in (0..ntasks).filter(|x| *x != *t && reads(*x)) {
                if !ledger_path(&self.ledger, &none_old, x, *t) {
                  v(&["C05"], "hidden-write-missed", format!("task {t} wrote {:?}, which task {x} read in its latest execution without (transitively) requiring {t}, and the write returned", r));
                  break;
                }
              }
            }
          }
        }
        Ev::RootStart { .. } => {}
        Ev::RootEnd { t, out } => {
          let cur = self.ledger[*t].as_ref().and_then(|e| e.out);
          if cur != Some(*out) {
            v(&["C01", "C15"], "require-output-mismatch", format!("Session::require of task {t} returned {:?}, but its latest completed execution produced {:?}", out, cur));
          }
          if !mid_seen && !executed.contains(t) && !validated_ok.contains(t) && !bu_reused.contains(t) {
            let nd = self.ledger[*t].as_ref().map(|e| e.deps.len()).unwrap_or(0);
            let p = &pass[*t];
            if !(p.started && !p.ended_incons && p.checked.len() >= nd) && nd > 0 {
              v(&["C01", "C09"], "reuse-without-validation", format!("Session::require got the cached output of task {t}, which was neither executed nor completely validated in this session ({} of {nd} dependencies checked)", p.next));
            } else { validated_ok.insert(*t); }
          }
        }
        Ev::ResRead { res, reader, .. } => { last_reader = Some((*reader, *res)); }
        Ev::ReaderUsed { res, reader, fresh } => {
          if !*fresh { v(&["C09", "C13"], "reader-not-fresh", format!("the reader of {:?} handed to the task was not left in a fresh state after stamping", res)); }
          let _ = reader;
        }
        Ev::WriteFnStart { .. } => {}
        Ev::WriteFnEnd { res, .. } => { write_fn_done = Some(*res); }
        Ev::ResWriteOpen { .. } => {}
        Ev::ResSet { res, .. } => { if let Some(ri) = prog.res_index(*res) { if self.changed.contains(&ri) { probes[4] = true; } } }
        Ev::RStamp { serial, owner, route, res, chk, seen, proj: _, reader } => {
          let s = *serial as usize;
          if self.stamps.len() <= s { self.stamps.resize(s + 1, None); }
          let Some(owner) = owner else {
            v(&["C09"], "stamp-without-access", format!("a stamp of {:?} was taken although the executing task is not accessing that resource", res));
            continue;
          };
          let Some((_, op, _, _)) = op_stack.last().copied() else { continue; };
          let kind = if op == OpK::Read { DepKind::Read } else { DepKind::Write };
          // Stamp timing and route.
          match op {
            OpK::Read => {
              if *route != Route::Reader { v(&["C09"], "stamp-route", format!("read of {:?} was stamped through route {:?} instead of the reader handed to the task", res, route)); }
              if let Some((rs, fresh)) = reader {
                if Some((*rs, *res)) != last_reader { v(&["C09"], "stamp-other-reader", format!("the reader that was stamped for {:?} is not the one created for this read", res)); }
                if !*fresh { v(&["C09"], "stamp-used-reader", format!("the reader of {:?} was used before it was stamped", res)); }
              }
            }
            OpK::Write => {
              if *route != Route::Writer { v(&["C09"], "stamp-route", format!("write of {:?} was stamped through route {:?} instead of the writer", res, route)); }
              if write_fn_done != Some(*res) { v(&["C09"], "stamp-before-write", format!("the write dependency on {:?} was stamped before the task's write function had finished (stamp saw {:?})", res, seen)); }
            }
            OpK::WriteVia => {
              if *route != Route::Path { v(&["C09"], "stamp-route", format!("written_to of {:?} was stamped through route {:?}", res, route)); }
            }
            OpK::Require => { v(&["C09"], "stamp-route", format!("a resource stamp of {:?} was taken during a require", res)); }
          }
          self.stamps[s] = Some(StampInfo { owner: Some(*owner), target: Target::Res(*res), kind, out: None });
          self.stamp_seen.insert(*serial, seen.val);
          add_dep(&mut self.ledger, *owner, Target::Res(*res), kind, Some(*chk), None, *serial);
        }
        Ev::OStamp { serial, owner, chk, out } => {
          let s = *serial as usize;
          if self.stamps.len() <= s { self.stamps.resize(s + 1, None); }
          let Some(owner) = owner else { continue; };
          let Some((_, _, target, _)) = op_stack.last().copied() else { continue; };
          if let Target::Task(u) = target {
            // The stamp must be taken from the output of the required task.
            let cur = self.ledger[u].as_ref().and_then(|e| e.out);
            if cur != Some(*out) { v(&["C09"], "require-stamp-output", format!("the require dependency on task {u} was stamped from {:?} but the task's output is {:?}", out, cur)); }
          }
          self.stamps[s] = Some(StampInfo { owner: Some(*owner), target, kind: DepKind::Require, out: Some(*out) });
          add_dep(&mut self.ledger, *owner, target, DepKind::Require, None, Some(*chk), *serial);
        }
        Ev::RCheck { .. } | Ev::OCheck { .. } => {
          let (serial, verdict, is_out, out_now) = match ev {
            Ev::RCheck { serial, verdict, .. } => (*serial, *verdict, false, None),
            Ev::OCheck { serial, incons, out, .. } => (*serial, if *incons { Verdict::Inconsistent } else { Verdict::Consistent }, true, Some(*out)),
            _ => unreachable!(),
          };
          if let Verdict::Error(code) = verdict { errors_seen.push(code); }
          if let Ev::RCheck { chk, .. } = ev { if chk.is_zst() { zst_checked = true; } }
          // Verdict truth for resource checkers that delegate to pie's own checkers (map: MapEqualsChecker; file:
          // Exists / Hash): the verdict must be the documented relation between the stamped and the current value.
          if let Ev::RCheck { chk, now, serial, res, verdict: vd @ (Verdict::Consistent | Verdict::Inconsistent), .. } = ev {
            if res.fam >= 2 && matches!(chk, RK::Exact | RK::Exists) {
              if let Some(seen) = self.stamp_seen.get(serial) {
                let expected = chk.stamp_of(Cell { val: *seen, ver: 0 }) != chk.stamp_of(Cell { val: now.val, ver: 0 });
                if expected != (*vd == Verdict::Inconsistent) {
                  v(&["C09", "C13", "C14"], "resource-checker-relation", format!("checker {:?} of {:?} answered {:?} for stamped value {:?} vs current value {:?}", chk, res, vd, seen, now.val));
                }
              }
            }
          }
          if let Ev::RCheck { chk, verdict: Verdict::Consistent, now, serial, .. } = ev {
            if !chk.is_exact() { if let Some(seen) = self.stamp_seen.get(serial) { if *seen != now.val { coarse_ignored = true; } } }
          }
          fnv(&mut trace, 0xC00 + serial * 3 + matches!(verdict, Verdict::Consistent) as u64);
          let info = self.stamps.get(serial as usize).cloned().flatten();
          let Some(info) = info else {
            v(&["C08", "C09"], "check-unknown-stamp", format!("a check was made against stamp #{serial}, which no access created"));
            continue;
          };
          let Some((t, n, _)) = info.owner else { continue; };
          // Verdict truth for output checkers (documented relation).
          if let (true, Some(now), Some(stamped), Ev::OCheck { chk, incons, .. }) = (is_out, out_now, info.out, ev) {
            let expected = if chk.is_zst() { chk.zst_inconsistent(&now) } else { chk.observe(&now) != chk.observe(&stamped) };
            if expected != *incons {
              v(&["C09"], "output-checker-relation", format!("output checker {:?} answered inconsistent={incons} for stamped {:?} vs current {:?}", chk, stamped, now));
            }
            if let Target::Task(u) = info.target {
              let cur = self.ledger[u].as_ref().and_then(|e| e.out);
              if cur != Some(now) { v(&["C09", "C15"], "check-stale-output", format!("the require dependency of task {t} on task {u} was checked against {:?} but the current output of {u} is {:?}", now, cur)); }
            }
          }
          let latest_n = self.ledger[t].as_ref().map(|e| e.n);
          if latest_n != Some(n) {
            v(&["C08"], "stale-dependency-checked", format!("a dependency created by execution #{n} of task {t} was checked although the task's latest execution is #{:?}", latest_n));
            continue;
          }
          let idx = self.ledger[t].as_ref().and_then(|e| e.deps.iter().position(|d| d.serials.contains(&serial)));
          let Some(idx) = idx else { continue; };
          let incons = verdict != Verdict::Consistent;
          let by_err = matches!(verdict, Verdict::Error(_));
          if in_bu_phase {
            if incons { let e = pending.entry(t).or_insert(false); *e = *e || by_err; }
          } else {
            let nd = self.ledger[t].as_ref().map(|e| e.deps.len()).unwrap_or(0);
            let p = &mut pass[t];
            if p.started && p.ended_incons {
              v(&["C02"], "check-after-inconsistent", format!("validation of task {t} continued with dependency {idx} after an earlier dependency had been reported inconsistent"));
            } else if idx == 0 && !(p.started && p.next == 0) {
              if p.started && p.checked.len() < nd { v(&["C01", "C09"], "validation-incomplete", format!("validation of task {t} restarted after only {} of {nd} dependencies", p.checked.len())); }
              *p = Pass { next: 1, ended_incons: incons, started: true, by_error: by_err, checked: [0usize].into_iter().collect() };
            } else {
              let expected_next = if p.started { p.next } else { 0 };
              if idx < expected_next || p.checked.contains(&idx) {
                v(&["C02", "C16"], "validation-order", format!("dependencies of task {t} were validated out of creation order: dependency {idx} checked after dependency {} (of {nd})", expected_next.saturating_sub(1)));
              } else if idx > expected_next {
                v(&["C01", "C09"], "validation-skipped", format!("validation of task {t} skipped dependencies {expected_next}..{idx} (of {nd})"));
              }
              p.started = true;
              p.checked.insert(idx);
              p.next = idx + 1;
              p.ended_incons = incons;
              p.by_error = by_err;
            }
            if executed.contains(&t) {
              // Dependencies of a task that was already executed in this session are fresh; nothing to add.
            }
          }
        }
        Ev::MidChange { .. } => {
          mid_seen = true; mid_idx = i;
          // What was executed or validated before the change says nothing about the state after it.
          executed.clear(); validated_ok.clear(); bu_reused.clear();
        }
        Ev::Trk(_) | Ev::SessionStart(_) | Ev::Continue => {}
      }
    }

    if aborted {
      if let (Some((t, op, target, _)), Some(abort)) = (op_stack.last().copied(), res.abort.as_ref()) {
        let diag = matches!(abort.kind, AbortKind::Cycle | AbortKind::Hidden | AbortKind::Overlap);
        // A require that was rejected as a cycle did not create its reserved edge.
        if let (OpK::Require, Target::Task(u), AbortKind::Cycle) = (op, target, &abort.kind) {
          if let Some(e) = self.ledger[t].as_mut() {
            let completed_before = e.deps.iter().any(|d| d.target == Target::Task(u));
            if !completed_before { e.req_issued.retain(|x| *x != u); }
          }
        }
        // A require of a task on the execution stack must be diagnosed as a cycle.
        if let (OpK::Require, Target::Task(u)) = (op, target) {
          if exec_stack.contains(&u) && abort.kind != AbortKind::Cycle && abort.kind != AbortKind::InjectedCrash {
            violations.push(Violation::new(&["C07"], "cycle-not-diagnosed", step, format!("task {t} required task {u}, which is still executing; the build aborted with {:?} instead of a cyclic-dependency error: {}", abort.kind, abort.info.short())));
          }
        }
        // A diagnosed violation on the writing side must be found before the resource is modified.
        if diag && op == OpK::Write {
          let start = slice.iter().rposition(|e| matches!(e, Ev::OpStart { .. })).unwrap_or(0);
          if slice[start..].iter().any(|e| matches!(e, Ev::ResSet { .. } | Ev::ResWriteOpen { .. })) {
            let props: &[&str] = if abort.kind == AbortKind::Overlap { &["C06"] } else { &["C05"] };
            violations.push(Violation::new(props, "abort-after-modification", step, format!("the build aborted with {:?} for a write through the context, but the resource {:?} had already been opened or modified", abort.kind, target)));
          }
        }
      }
    }
    // End-of-session rules (only when the session returned).
    if !aborted {
      // A build that returns leaves at most one writer per resource and every reader dependent on the writer.
      let none_old: Vec<Option<ExecRec>> = vec![None; ntasks];
      let world_end: Vec<Option<Val>> = { let mut w = before.to_vec(); for e in slice.iter() { if let Ev::ResSet { res, new, .. } | Ev::MidChange { res, new } = e { if let Some(i) = prog.res_index(*res) { w[i] = *new; } } } w };
      for r in prog.resources.iter() {
        let writers: Vec<Tid> = (0..ntasks).filter(|x| self.ledger[*x].as_ref().map(|e| e.deps.iter().any(|d| d.kind == DepKind::Write && d.target == Target::Res(*r))).unwrap_or(false)).collect();
        // (only what this build itself executed or validated: what earlier builds of the session established may
        // since have lost its path through the truncated record of an aborted task)
        let fresh = |x: &Tid| executed.contains(x) || (validated_ok.contains(x) && !carry.validated.contains(x)) || bu_reused.contains(x);
        if writers.len() > 1 && writers.iter().any(|w| fresh(w)) { violations.push(Violation::new(&["C06"], "two-writers-after-build", step, format!("after the build returned, tasks {:?} are all recorded as writers of {:?}", writers, r))); }
        // A recorded writer that this build did not touch and whose own recorded resource dependencies no longer hold
        // in the current state (its record is stale: it would be re-executed, and may well not write the resource any
        // more) is not "the task that generates the resource".
        let writer_current = |w: &Tid| -> bool {
          if fresh(w) { return true; }
          let Some(rec) = self.ledger[*w].as_ref() else { return false; };
          rec.completed && rec.deps.iter().all(|d| match (d.target, d.rchk) {
            (Target::Res(rr), Some(k)) if !k.is_zst() && k != RK::Version => {
              let now = prog.res_index(rr).and_then(|i| world_end[i]);
              match d.serials.first().and_then(|sn| self.stamp_seen.get(sn)) { Some(seen) => k.stamp_of(Cell { val: *seen, ver: 0 }) == k.stamp_of(Cell { val: now, ver: 0 }), None => true }
            }
            _ => true,
          })
        };
        if let Some(w) = writers.first().filter(|w| writer_current(w)) {
          for x in (0..ntasks).filter(|x| x != w && fresh(x) && self.ledger[*x].as_ref().map(|e| e.deps.iter().any(|d| d.kind == DepKind::Read && d.target == Target::Res(*r))).unwrap_or(false)) {
            if !ledger_path(&self.ledger, &none_old, x, *w) {
              // A reader that was only validated (its own dependencies are consistent) while a task on its former
              // path to the writer was re-executed and no longer requires the writer: pie does not notice that
              // (recorded finding). A reader that executed in this session has no such excuse.
              // The intermediate task may also have been re-executed in an earlier session than the one that now
              // validates the reader: any session from the reader's own latest execution on counts (in that very
              // session it is the other recorded finding, path-through-record-replaced-later-in-build, seen again
              // when a later session validates the reader).
              let x_session = self.ledger[x].as_ref().map(|e| e.session).unwrap_or(usize::MAX);
              let intermediate_reexecuted = (0..ntasks).any(|m| m != x && m != *w && self.ledger[m].as_ref().map(|e| e.session >= x_session || executed.contains(&m)).unwrap_or(false) && self.prev[m].as_ref().map(|e| !e.req_issued.is_empty()).unwrap_or(false));
              // A reader (or writer) that executed in this build was checked by pie against the records as they
              // were at that moment; when the path it found ran through the not yet replaced record of a task that was
              // re-executed later in the same build (and then no longer required the writer), the build returns with
              // the hidden dependency undetected (recorded finding as well; same root cause). The path must exist when
              // the replaced records of the other tasks executed in this session are taken into account.
              let replaced: Vec<Option<ExecRec>> = (0..ntasks).map(|m| if m != x && executed.contains(&m) { self.prev[m].clone() } else { None }).collect();
              let via_replaced = (executed.contains(&x) || executed.contains(w)) && ledger_path(&self.ledger, &replaced, x, *w);
              let sig = if !executed.contains(&x) && !executed.contains(w) && intermediate_reexecuted { "path-dropped-by-reexecuted-intermediate" } else if via_replaced { "path-through-record-replaced-later-in-build" } else { "" };
              violations.push(Violation::new(&["C05"], "reader-without-path-after-build", step, format!("after the build returned, task {x}, which was executed or validated in it, is a recorded reader of {:?} without (transitively) requiring its writer {w}", r)).with_sig(sig));
              break;
            }
          }
        }
      }
      // Zero-sized-stamp checkers: the verdict is a function of the current value alone, so the model knows it even
      // when pie never asks the checker. A task that was reused although such a dependency is inconsistent now was
      // not validated by its checker (top-down: every task handed out; bottom-up: every known task whose dependency
      // target was reported, written or re-executed in this build).
      if zst_program && fault_free && !mid_seen {
        let mut world: Vec<Option<Val>> = before.to_vec();
        let mut touched_res: BTreeSet<ResKey> = BTreeSet::new();
        let mut bu_executed: BTreeSet<Tid> = BTreeSet::new();
        let mut in_bu = false;
        let last_bu_end = slice.iter().rposition(|e| matches!(e, Ev::BuEnd)).unwrap_or(slice.len());
        // What a top-down phase after the last build modified or re-executed: the bottom-up rule does not speak about it.
        let mut after_bu_res: BTreeSet<ResKey> = BTreeSet::new();
        let mut after_bu_exec: BTreeSet<Tid> = BTreeSet::new();
        for (i, e) in slice.iter().enumerate() {
          match e {
            Ev::BuStart => { in_bu = true; }
            Ev::BuEnd | Ev::BuDropped => { in_bu = false; }
            Ev::ExecStart { t, .. } => { if in_bu { bu_executed.insert(*t); } if i > last_bu_end { after_bu_exec.insert(*t); } }
            Ev::ResSet { res, new, .. } => { if let Some(ix) = prog.res_index(*res) { world[ix] = *new; if in_bu { touched_res.insert(*res); } if i > last_bu_end { after_bu_res.insert(*res); } } }
            _ => {}
          }
        }
        if let SessionKind::BottomUp { report, .. } = kind { for r in report.iter() { touched_res.insert(prog.resources[*r]); } }
        let bu_complete = matches!(kind, SessionKind::BottomUp { complete: true, .. }) && !self.abort_dirty && self.td_partial_exec.is_empty();
        for t in 0..ntasks {
          if executed.contains(&t) { continue; }
          let Some(rec) = self.ledger[t].as_ref() else { continue; };
          if !rec.completed { continue; }
          let handed_out = validated_ok.contains(&t) && !carry.validated.contains(&t);
          for d in rec.deps.iter() {
            let (incons, relevant) = match (d.target, d.rchk, d.ochk) {
              (Target::Res(r), Some(k), _) if k.is_zst() => { let val = prog.res_index(r).and_then(|i| world[i]); (k.zst_inconsistent(Cell { val, ver: 0 }), handed_out || (bu_complete && touched_res.contains(&r) && !after_bu_res.contains(&r))) }
              (Target::Task(u), _, Some(k)) if k.is_zst() => { let out = self.ledger[u].as_ref().and_then(|e| e.out); (out.map(|o| k.zst_inconsistent(&o)).unwrap_or(false), handed_out || (bu_complete && bu_executed.contains(&u) && !after_bu_exec.contains(&u))) }
              _ => (false, false),
            };
            if incons && relevant {
              violations.push(Violation::new(&["C09", "C08"], "zst-inconsistent-but-reused", step, format!("task {t} was not re-executed although its dependency on {:?}, whose checker keeps everything it needs in itself (zero-sized stamp), is inconsistent for the current value", d.target)));
              break;
            }
          }
        }
      }
      for t in 0..ntasks {
        let p = &pass[t];
        if p.started && !executed.contains(&t) {
          let nd = self.ledger[t].as_ref().map(|e| e.deps.len()).unwrap_or(0);
          if p.ended_incons {
            let props: &[&str] = if p.by_error { &["C18", "C09"] } else { &["C09", "C01"] };
            violations.push(Violation::new(props, "inconsistent-but-reused", step, format!("a dependency of task {t} was reported {} during its validation but the task was not re-executed", if p.by_error { "as a checker error" } else { "inconsistent" })));
          } else if p.checked.len() < nd {
            violations.push(Violation::new(&["C01", "C09"], "validation-incomplete", step, format!("task {t} was reused after only {} of its {nd} dependencies were validated", p.checked.len())));
          }
        }
      }
      // Checker errors must be reported exactly once, in order.
      let injected: Vec<u32> = with_sim(|s| s.errors_injected.iter().map(|e| e.1).collect());
      let expected: Vec<String> = injected.iter().map(|c| format!("SimErr({c})")).collect();
      if last && res.check_errors != expected {
        violations.push(Violation::new(&["C18"], "check-errors-reported", step, format!("Session::dependency_check_errors = {:?} but the checkers returned errors {:?}", res.check_errors, expected)));
      }
      if !injected.is_empty() { self.stats.add("fault_checker_error_fired", injected.len() as u64); self.errors_fired += injected.len() as u64; }
    } else {
      if (0..ntasks).any(|t| self.ledger[t].as_ref().map(|e| !e.completed && e.req_issued.len() > e.deps.iter().filter(|d| d.kind == DepKind::Require).count()).unwrap_or(false)) { self.stats.hit("probe_reserved_edge_after_abort"); }
      // Unwinding leaves executions unfinished.
      for t in 0..ntasks { if let Some(e) = self.ledger[t].as_mut() { if !e.completed { e.out = None; } } }
    }
    let _ = errors_seen;
    if cutoff { self.stats.hit("probe_early_cutoff"); }
    if builds_started >= 2 { self.stats.hit("probe_several_bottom_up_builds_in_one_session"); }
    for (i, name) in ["probe_execution_depth_ge5", "probe_bu_queue_ge5", "probe_task_with_ge6_dependencies"].iter().enumerate() { if size_probes[i] { self.stats.hit(name); } }
    if self.session_no >= 6 { self.stats.hit("probe_sixth_or_later_build_on_instance"); }
    if let SessionKind::BottomUp { pre_require, .. } = kind { if !pre_require.is_empty() && slice.iter().any(|e| matches!(e, Ev::ExecStart { bottom_up: true, .. })) && slice.iter().any(|e| matches!(e, Ev::ExecStart { bottom_up: false, .. })) { self.stats.hit("probe_session_executed_top_down_and_bottom_up"); } }
    for (i, n) in fam_access.iter().enumerate() { self.stats.add(["access_sim_RA", "access_sim_RB", "access_map_MK2", "access_map_MK3", "access_file"][i], *n); }
    if coarse_ignored { self.stats.hit("probe_coarse_ignored_change"); }
    if zst_checked { self.stats.hit("probe_zero_sized_stamp_checked"); }
    for (i, name) in ["probe_bu_queue_ge3", "probe_bu_nested_execution_of_scheduled_task", "probe_bu_new_task_executed_nested", "probe_dependency_set_changed", "probe_generated_resource_repaired", "probe_reserved_edge_after_abort", "observed_bu_double_execution_of_aborted_task"].iter().enumerate() { if probes[i] { self.stats.hit(name); } }
    if !executed.is_empty() { self.stats.add("executions", exec_count.iter().map(|c| *c as u64).sum()); }
    self.trace = trace;
    for vi in violations { if self.vs.len() < 16 { self.vs.push(vi); } }
    for vi in sig_violations.into_iter().take(1) { if self.vs.len() < 16 { self.vs.push(vi); } }

    // Tracker oracles.
    self.check_tracker(step, slice, aborted, last);
    let incons_open: BTreeSet<Tid> = (0..ntasks).filter(|t| pass[*t].started && pass[*t].ended_incons && !executed.contains(t)).collect();
    let pass_complete: BTreeSet<Tid> = (0..ntasks).filter(|t| { let p = &pass[*t]; let nd = self.ledger[*t].as_ref().map(|e| e.deps.len()).unwrap_or(0); p.started && !p.ended_incons && p.checked.len() >= nd && !executed.contains(t) }).collect();
    Analysis { bu_reused, pass_complete, executed, validated_ok, open_op: op_stack.last().map(|(t, op, target, _)| (*t, *op, *target)), exec_stack, pending: pending.keys().copied().collect(), incons_open }
  }

  fn check_tracker(&mut self, step: usize, slice: &[Ev], aborted: bool, last: bool) {
    // Composite: both recorders received the identical stream.
    let (a_len, equal) = {
      let t = self.pie.tracker();
      let a = &t.0.events;
      let b = &t.1 .1.events;
      (a.len(), a == b)
    };
    if !equal {
      let t = self.pie.tracker();
      let (a, b) = (&t.0.events, &t.1 .1.events);
      let pos = a.iter().zip(b.iter()).position(|(x, y)| x != y).unwrap_or(a.len().min(b.len()));
      let msg = format!("the two children of the composite tracker received different streams (lengths {} and {}, first difference at {pos}: {:?} vs {:?})", a.len(), b.len(), a.get(pos), b.get(pos));
      self.viol(&["C17"], "composite-stream", step, msg);
    }
    // The tracker events of this segment: as many as the unified log holds for it (all of the rest for the last one).
    let n_seg = slice.iter().filter(|e| matches!(e, Ev::Trk(_))).count();
    let upto = if last { a_len } else { (self.trk_seen + n_seg).min(a_len) };
    let new_events: Vec<TrkEv> = self.pie.tracker().0.events[self.trk_seen..upto].to_vec();
    if last && upto - self.trk_seen != n_seg && self.vs.is_empty() { self.viol(&["C17"], "tracker-fidelity", step, format!("the recording tracker received {} events in this build, the unified log holds {n_seg}", upto - self.trk_seen)); }
    self.trk_seen = upto;
    // Nesting.
    let mut stack: Vec<(u8, KeyR, usize)> = vec![];
    for (i, e) in new_events.iter().enumerate() {
      let (is_start, is_end, group) = e.kind.nesting();
      if is_start { stack.push((group, e.key.clone(), i)); }
      else if is_end {
        match stack.pop() {
          Some((g, k, _)) if g == group && k == e.key => {}
          other => {
            if !aborted {
              self.viol(&["C17"], "tracker-nesting", step, format!("tracker event {i} {:?} {:?} does not close the most recent unclosed start ({:?})", e.kind, e.key, other));
              break;
            }
          }
        }
      }
    }
    if !aborted && !stack.is_empty() && self.vs.is_empty() {
      self.viol(&["C17"], "tracker-unclosed", step, format!("{} start events were never closed: {:?}", stack.len(), stack.last()));
    }
    // Fidelity against the task-side and checker-side logs: walk the unified log.
    let prog = self.prog.clone();
    let key_of = |t: Tid| KeyR::Task(prog.tasks[t].key);
    let mut pending_exec: Vec<Tid> = vec![];
    let mut last_trk: Option<&TrkEv> = None;
    let mut problems: Vec<String> = vec![];
    let mut open_checks: Vec<(TK, ValR)> = vec![];
    for ev in slice.iter() {
      match ev {
        Ev::Trk(t) => {
          match t.kind {
            TK::ExecuteStart => { if let KeyR::Task(k) = &t.key { if let Some(i) = prog.task_index(*k) { pending_exec.push(i); } else { problems.push(format!("execute_start for unknown task {:?}", t.key)); } } else { problems.push(format!("execute_start with a non-task key {:?}", t.key)); } }
            TK::CheckResourceStart | TK::CheckReadResStart | TK::CheckTaskStart | TK::CheckReqTaskStart => { open_checks.push((t.kind, t.stamp.clone())); }
            TK::CheckResourceEnd | TK::CheckReadResEnd | TK::CheckTaskEnd | TK::CheckReqTaskEnd => { open_checks.pop(); }
            _ => {}
          }
          last_trk = Some(t);
        }
        Ev::ExecStart { t, .. } => {
          // The execute_start event must directly precede the execution, for the same task.
          match last_trk { Some(l) if l.kind == TK::ExecuteStart && l.key == key_of(*t) => {} other => problems.push(format!("task {t} started executing but the preceding tracker event is {:?}", other.map(|o| (o.kind, o.key.clone())))) }
          if pending_exec.pop() != Some(*t) { problems.push(format!("execute_start events do not match the execution of task {t}")); }
        }
        Ev::ExecEnd { t, out, .. } => { let _ = (t, out); }
        Ev::RCheck { serial, verdict, .. } => {
          // Must be enclosed by a resource check event pair for the same stamp.
          match open_checks.last() {
            Some((TK::CheckResourceStart | TK::CheckReadResStart, ValR::RStamp(s))) if s.serial == *serial => {}
            other => problems.push(format!("resource check of stamp #{serial} ({verdict:?}) is not enclosed by a matching tracker check event (innermost: {:?})", other)),
          }
        }
        _ => {}
      }
    }
    if !aborted && !pending_exec.is_empty() { problems.push(format!("execute_start events without execution: {:?}", pending_exec)); }
    // Second pass: end events carry the true results.
    let mut it = slice.iter().peekable();
    let mut last_exec_end: Option<(Tid, Out)> = None;
    let mut last_rcheck: Option<(u64, Verdict)> = None;
    let mut last_ocheck: Option<(u64, bool)> = None;
    let mut last_op_require_out: Option<Val> = None;
    let _ = &mut last_op_require_out;
    while let Some(ev) = it.next() {
      match ev {
        Ev::ExecEnd { t, out, .. } => {
          // The next tracker event must be execute_end(t, out).
          match it.peek() {
            Some(Ev::Trk(e)) if e.kind == TK::ExecuteEnd && e.key == key_of(*t) && e.out == ValR::Out(*out) => {}
            other => problems.push(format!("execution of task {t} returned {:?} but the next event is {:?}", out, other)),
          }
          last_exec_end = Some((*t, *out));
        }
        Ev::RCheck { serial, verdict, .. } => { last_rcheck = Some((*serial, *verdict)); }
        Ev::OCheck { serial, incons, .. } => { last_ocheck = Some((*serial, *incons)); }
        Ev::Trk(e) => {
          match e.kind {
            TK::CheckResourceEnd | TK::CheckReadResEnd => {
              if let (ValR::RStamp(s), Some((serial, verdict))) = (&e.stamp, last_rcheck) {
                if s.serial == serial {
                  let ok = match (&e.inc, verdict) { (IncR::Consistent, Verdict::Consistent) => true, (IncR::Inconsistent(_), Verdict::Inconsistent) => true, (IncR::Error(_), Verdict::Error(_)) => true, _ => false };
                  if !ok { problems.push(format!("check end event for stamp #{serial} reports {:?} but the checker answered {:?}", e.inc, verdict)); }
                } else { problems.push(format!("check end event for stamp #{} but the last check was of stamp #{serial}", s.serial)); }
              }
            }
            TK::CheckTaskEnd | TK::CheckReqTaskEnd => {
              if let (ValR::OStamp(s), Some((serial, incons))) = (&e.stamp, last_ocheck) {
                if s.serial == serial {
                  let ok = matches!((&e.inc, incons), (IncR::Consistent, false) | (IncR::Inconsistent(_), true));
                  if !ok { problems.push(format!("task check end event for stamp #{serial} reports {:?} but the checker answered inconsistent={incons}", e.inc)); }
                } else { problems.push(format!("task check end event for stamp #{} but the last output check was of stamp #{serial}", s.serial)); }
              }
            }
            _ => {}
          }
        }
        Ev::OpEnd { .. } | Ev::RootEnd { .. } => {}
        _ => {}
      }
    }
    let _ = last_exec_end;
    // require_end carries the value returned to the caller: match require_end events with OpEnd/RootEnd that follow.
    let mut last_require_end: Option<&TrkEv> = None;
    for ev in slice.iter() {
      match ev {
        Ev::Trk(e) if e.kind == TK::RequireEnd => { last_require_end = Some(e); }
        Ev::Trk(_) => {}
        Ev::OpEnd { obs, .. } => {
          // obs of a require op is the output code; only compare when the previous tracker event was a require_end.
          if let Some(e) = last_require_end.take() { if let ValR::Out(o) = &e.out { if out_code(o) != *obs { /* may be a read/write op end; filtered below */ } } }
        }
        Ev::RootEnd { t, out } => {
          match last_require_end.take() {
            Some(e) if e.key == key_of(*t) && e.out == ValR::Out(*out) => {}
            other => problems.push(format!("Session::require of task {t} returned {:?} but the last require_end event is {:?}", out, other.map(|e| (e.key.clone(), e.out.clone())))),
          }
        }
        _ => {}
      }
    }
    if let Some(p) = problems.into_iter().next() {
      if self.vs.is_empty() { self.viol(&["C17"], "tracker-fidelity", step, p); }
    }
    if last { self.check_event_tracker(step, &new_events); }
  }

  /// `EventTracker` contents and helpers against a reference scan of the recorded stream.
  fn check_event_tracker(&mut self, step: usize, new_events: &[TrkEv]) {
    use pie::tracker::event::Event;
    // EventTracker clears on build_start: it holds the events since the last build_start.
    let Some(last_start) = new_events.iter().rposition(|e| e.kind == TK::BuildStart) else { return; };
    let expected: Vec<&TrkEv> = new_events[last_start..].iter().filter(|e| matches!(e.kind, TK::BuildStart | TK::BuildEnd | TK::RequireStart | TK::RequireEnd | TK::ReadStart | TK::ReadEnd | TK::WriteStart | TK::WriteEnd | TK::ExecuteStart | TK::ExecuteEnd)).collect();
    let prog = self.prog.clone();
    let et = &self.pie.tracker().1 .0;
    let got = et.slice();
    let mut problem: Option<String> = None;
    if got.len() != expected.len() { problem = Some(format!("EventTracker holds {} events, the stream since the last build start has {} recordable events", got.len(), expected.len())); }
    else {
      for (i, (g, e)) in got.iter().zip(expected.iter()).enumerate() {
        let (kind, key, index, out): (TK, KeyR, Option<usize>, Option<ValR>) = match g {
          Event::BuildStart => (TK::BuildStart, KeyR::None, None, None),
          Event::BuildEnd => (TK::BuildEnd, KeyR::None, None, None),
          Event::RequireStart(d) => (TK::RequireStart, super::trk::render_key(d.task.as_ref()), Some(d.index), None),
          Event::RequireEnd(d) => (TK::RequireEnd, super::trk::render_key(d.task.as_ref()), Some(d.index), Some(super::trk::render_val(d.output.as_ref()))),
          Event::ReadStart(d) => (TK::ReadStart, super::trk::render_key(d.resource.as_ref()), Some(d.index), None),
          Event::ReadEnd(d) => (TK::ReadEnd, super::trk::render_key(d.resource.as_ref()), Some(d.index), None),
          Event::WriteStart(d) => (TK::WriteStart, super::trk::render_key(d.resource.as_ref()), Some(d.index), None),
          Event::WriteEnd(d) => (TK::WriteEnd, super::trk::render_key(d.resource.as_ref()), Some(d.index), None),
          Event::ExecuteStart(d) => (TK::ExecuteStart, super::trk::render_key(d.task.as_ref()), Some(d.index), None),
          Event::ExecuteEnd(d) => (TK::ExecuteEnd, super::trk::render_key(d.task.as_ref()), Some(d.index), Some(super::trk::render_val(d.output.as_ref()))),
        };
        if kind != e.kind || key != e.key { problem = Some(format!("EventTracker event {i} is {:?} {:?}, the stream has {:?} {:?}", kind, key, e.kind, e.key)); break; }
        if let Some(ix) = index { if ix != i { problem = Some(format!("EventTracker event {i} ({:?}) stores index {ix}", kind)); break; } }
        if let Some(o) = out { if o != e.out { problem = Some(format!("EventTracker event {i} ({:?}) stores output {:?}, the stream has {:?}", kind, o, e.out)); break; } }
      }
    }
    if problem.is_none() {
      // Helpers vs a reference scan, for every key of the program and a foreign key.
      let mut task_keys: Vec<(KeyR, Box<dyn KeyObj>)> = vec![];
      for t in prog.tasks.iter() { task_keys.push((KeyR::Task(t.key), task_key_obj(t.key))); }
      task_keys.push((KeyR::Other("foreign".into()), Box::new(String::from("foreign"))));
      let mut res_keys: Vec<(KeyR, Box<dyn KeyObj>)> = vec![];
      for r in prog.resources.iter() { res_keys.push((KeyR::Res(*r), res_key_obj(*r))); }
      res_keys.push((KeyR::Other("foreign".into()), Box::new(String::from("foreign"))));
      'outer: for (i, (g, e)) in got.iter().zip(expected.iter()).enumerate() {
        if g.is_build_start() != (e.kind == TK::BuildStart) { problem = Some(format!("Event::is_build_start of event {i} ({:?}) = {}", e.kind, g.is_build_start())); break; }
        if g.is_build_end() != (e.kind == TK::BuildEnd) { problem = Some(format!("Event::is_build_end of event {i} ({:?}) = {}", e.kind, g.is_build_end())); break; }
        if g.is_execute() != matches!(e.kind, TK::ExecuteStart | TK::ExecuteEnd) { problem = Some(format!("Event::is_execute of event {i} ({:?}) = {}", e.kind, g.is_execute())); break; }
        for (kr, ko) in task_keys.iter() {
          let same = *kr == e.key;
          let checks = [
            ("match_require_start", g.match_require_start(ko.as_ref()).is_some(), e.kind == TK::RequireStart && same),
            ("match_require_end", g.match_require_end(ko.as_ref()).is_some(), e.kind == TK::RequireEnd && same),
            ("is_execute_of", g.is_execute_of(ko.as_ref()), matches!(e.kind, TK::ExecuteStart | TK::ExecuteEnd) && same),
            ("match_execute_start", g.match_execute_start(ko.as_ref()).is_some(), e.kind == TK::ExecuteStart && same),
            ("match_execute_end", g.match_execute_end(ko.as_ref()).is_some(), e.kind == TK::ExecuteEnd && same),
          ];
          for (name, got_v, exp_v) in checks { if got_v != exp_v { problem = Some(format!("Event::{name} of event {i} ({:?} {:?}) for key {:?} = {got_v}, expected {exp_v}", e.kind, e.key, kr)); break 'outer; } }
        }
        for (kr, ko) in res_keys.iter() {
          let same = *kr == e.key;
          let checks = [
            ("match_read_start", g.match_read_start(ko.as_ref()).is_some(), e.kind == TK::ReadStart && same),
            ("match_read_end", g.match_read_end(ko.as_ref()).is_some(), e.kind == TK::ReadEnd && same),
            ("match_write_start", g.match_write_start(ko.as_ref()).is_some(), e.kind == TK::WriteStart && same),
            ("match_write_end", g.match_write_end(ko.as_ref()).is_some(), e.kind == TK::WriteEnd && same),
          ];
          for (name, got_v, exp_v) in checks { if got_v != exp_v { problem = Some(format!("Event::{name} of event {i} ({:?} {:?}) for key {:?} = {got_v}, expected {exp_v}", e.kind, e.key, kr)); break 'outer; } }
        }
      }
      if problem.is_none() {
        // Aggregate queries.
        let first = |kind: TK, key: &KeyR| expected.iter().position(|e| e.kind == kind && e.key == *key);
        for (kr, ko) in task_keys.iter() {
          let k = ko.as_ref();
          let exp_req = first(TK::RequireStart, kr).zip(first(TK::RequireEnd, kr));
          let got_req = et.first_require(k).map(|(s, e)| (s.index, e.index));
          if got_req != exp_req { problem = Some(format!("EventTracker::first_require({:?}) = {:?}, reference {:?}", kr, got_req, exp_req)); break; }
          if et.first_require_range(k) != exp_req.map(|(s, e)| s..=e) { problem = Some(format!("EventTracker::first_require_range({:?}) differs from reference {:?}", kr, exp_req)); break; }
          let exp_ex = first(TK::ExecuteStart, kr).zip(first(TK::ExecuteEnd, kr));
          let got_ex = et.first_execute(k).map(|(s, e)| (s.index, e.index));
          if got_ex != exp_ex { problem = Some(format!("EventTracker::first_execute({:?}) = {:?}, reference {:?}", kr, got_ex, exp_ex)); break; }
          if et.first_execute_range(k) != exp_ex.map(|(s, e)| s..=e) { problem = Some(format!("EventTracker::first_execute_range({:?}) differs from reference", kr)); break; }
          if et.first_execute_end(k).map(|d| d.index) != first(TK::ExecuteEnd, kr) { problem = Some(format!("EventTracker::first_execute_end({:?}) differs from reference", kr)); break; }
          if et.first_execute_end_index(k).copied() != first(TK::ExecuteEnd, kr) { problem = Some(format!("EventTracker::first_execute_end_index({:?}) differs from reference", kr)); break; }
          let n_start = expected.iter().filter(|e| e.kind == TK::ExecuteStart && e.key == *kr).count();
          let n_any = expected.iter().filter(|e| matches!(e.kind, TK::ExecuteStart | TK::ExecuteEnd) && e.key == *kr).count();
          if et.any_execute_of(k) != (n_any > 0) { problem = Some(format!("EventTracker::any_execute_of({:?}) = {}", kr, et.any_execute_of(k))); break; }
          if et.one_execute_of(k) != (n_start == 1) { problem = Some(format!("EventTracker::one_execute_of({:?}) = {} with {n_start} execute starts", kr, et.one_execute_of(k))); break; }
        }
        if problem.is_none() {
          let any_ex = expected.iter().any(|e| matches!(e.kind, TK::ExecuteStart | TK::ExecuteEnd));
          if et.any_execute() != any_ex { problem = Some(format!("EventTracker::any_execute() = {}", et.any_execute())); }
        }
        if problem.is_none() {
          for (kr, ko) in res_keys.iter() {
            let k = ko.as_ref();
            let exp_rd = first(TK::ReadStart, kr).zip(first(TK::ReadEnd, kr));
            if et.first_read(k).map(|(s, e)| (s.index, e.index)) != exp_rd { problem = Some(format!("EventTracker::first_read({:?}) differs from reference {:?}", kr, exp_rd)); break; }
            if et.first_read_range(k) != exp_rd.map(|(s, e)| s..=e) { problem = Some(format!("EventTracker::first_read_range({:?}) differs from reference", kr)); break; }
            if et.first_read_end(k).map(|d| d.index) != first(TK::ReadEnd, kr) { problem = Some(format!("EventTracker::first_read_end({:?}) differs from reference", kr)); break; }
            if et.first_read_end_index(k).copied() != first(TK::ReadEnd, kr) { problem = Some(format!("EventTracker::first_read_end_index({:?}) differs from reference", kr)); break; }
            let exp_wr = first(TK::WriteStart, kr).zip(first(TK::WriteEnd, kr));
            if et.first_write(k).map(|(s, e)| (s.index, e.index)) != exp_wr { problem = Some(format!("EventTracker::first_write({:?}) differs from reference {:?}", kr, exp_wr)); break; }
            if et.first_write_range(k) != exp_wr.map(|(s, e)| s..=e) { problem = Some(format!("EventTracker::first_write_range({:?}) differs from reference", kr)); break; }
            if et.first_write_end(k).map(|d| d.index) != first(TK::WriteEnd, kr) { problem = Some(format!("EventTracker::first_write_end({:?}) differs from reference", kr)); break; }
            if et.first_write_end_index(k).copied() != first(TK::WriteEnd, kr) { problem = Some(format!("EventTracker::first_write_end_index({:?}) differs from reference", kr)); break; }
          }
        }
      }
    }
    if let Some(p) = problem { if self.vs.is_empty() { self.viol(&["C17"], "event-tracker", step, p); } }
  }

  pub fn outcome(mut self) -> RunOutcome {
    let mut out = RunOutcome::default();
    out.violations = std::mem::take(&mut self.vs);
    out.harness_error = self.harness_error.take();
    out.trace_hash = self.trace;
    out.steps = with_sim(|s| s.log.len() as u64);
    out.nontrivial = match self.prop {
      "C03" | "C04" => self.bu_nontrivial,
      "C18" => self.errors_fired > 0,
      "C19" => self.crashes_fired > 0 && self.td_after_abort_returned > 0,
      "C05" | "C06" | "C07" | "C20" => self.diag_aborts > 0 || self.reuse_and_exec,
      "C09" => self.reuse_and_exec && self.stats.get("probe_coarse_ignored_change") > 0,
      _ => self.reuse_and_exec,
    };
    out.stats = std::mem::take(&mut self.stats);
    out
  }
}

fn aborted_task(e: &Option<ExecRec>) -> bool { e.as_ref().map(|e| !e.completed).unwrap_or(true) }

pub fn task_key_obj(k: TaskKey) -> Box<dyn KeyObj> {
  use super::interp::T;
  match k.fam {
    0 => Box::new(T::<0>(k.id)),
    1 => Box::new(T::<1>(k.id)),
    2 => Box::new(Box::new(T::<2>(k.id))),
    3 => Box::new(std::rc::Rc::new(T::<3>(k.id))),
    4 => Box::new(std::sync::Arc::new(T::<4>(k.id))),
    5 => Box::new(Box::new(T::<0>(k.id))),
    _ => Box::new(std::rc::Rc::new(T::<0>(k.id))),
  }
}

pub fn res_key_obj(k: ResKey) -> Box<dyn KeyObj> {
  match k.fam {
    0 => Box::new(R::<0>(k.id)),
    1 => Box::new(R::<1>(k.id)),
    2 => Box::new(MK::<2>(k.id)),
    3 => Box::new(MK::<3>(k.id)),
    _ => Box::new(file_path(k.id)),
  }
}

fn add_dep(ledger: &mut [Option<ExecRec>], owner: Owner, target: Target, kind: DepKind, rchk: Option<RK>, ochk: Option<OK>, serial: u64) {
  let (t, n, _) = owner;
  let Some(e) = ledger[t].as_mut() else { return; };
  if e.n != n { return; }
  if let Some(d) = e.deps.iter_mut().find(|d| d.target == target) {
    d.serials.push(serial);
    d.accesses.push((kind, rchk, ochk));
  } else {
    e.deps.push(Dep { target, kind, rchk, ochk, serials: vec![serial], accesses: vec![(kind, rchk, ochk)] });
  }
}

/// Is there a path of require edges from `a` to `b` in the ledger graph (latest executions; for a task that is being
/// re-executed also the edges of its previous execution)?
fn ledger_path(ledger: &[Option<ExecRec>], old: &[Option<ExecRec>], a: Tid, b: Tid) -> bool {
  let mut seen = BTreeSet::new();
  let mut stack = vec![a];
  while let Some(x) = stack.pop() {
    for src in [&ledger[x], &old[x]] {
      if let Some(e) = src {
        for u in e.req_issued.iter().copied() {
          if u == b { return true; }
          if seen.insert(u) { stack.push(u); }
        }
      }
    }
  }
  false
}

/// The checker with which task `w` writes resource `r` (first write op found in its script).
pub fn write_checker_of(prog: &Program, w: Tid, r: usize) -> Option<RK> {
  fn find(ops: &[Op], r: usize) -> Option<RK> {
    for op in ops {
      match op {
        Op::Write { res, chk, .. } if *res == r => return Some(*chk),
        Op::If { then, els, .. } => { if let Some(k) = find(then, r).or_else(|| find(els, r)) { return Some(k); } }
        Op::Switch { cases, .. } => { for c in cases { if let Some(k) = find(c, r) { return Some(k); } } }
        _ => {}
      }
    }
    None
  }
  find(&prog.tasks[w].ops, r)
}

#[allow(dead_code)]
pub fn ill_summary(ill: &[Ill]) -> String { format!("{:?}", ill) }

impl Drop for Runner<'_> {
  fn drop(&mut self) { if let Some(d) = self.file_dir.take() { let _ = std::fs::remove_dir_all(d); } }
}
