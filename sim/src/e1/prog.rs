//! Task programs (explicit, serialisable data), scenarios, and the generators of the program classes.
use std::collections::{BTreeMap, BTreeSet};

use serde::{Deserialize, Serialize};

use crate::rng::Rng;

use super::world::{ResKey, TaskKey, Tid, Val, OK, RK};

pub const NVALS: Val = 6; // values 0..NVALS-1; NVALS means "delete" in write expressions

#[derive(Clone, Debug, PartialEq, Eq, Serialize, Deserialize)]
pub enum Op {
  /// Read resource (index into `Program::resources`) with a checker.
  Read { res: usize, chk: RK },
  /// Require task (index into `Program::tasks`) with a checker.
  Require { task: Tid, chk: OK },
  /// Write `(acc + k) % (NVALS + 1)` (== NVALS: delete) through `Context::write`, or through
  /// `create_writer` + `written_to` when `via`.
  Write { res: usize, chk: RK, k: Val, via: bool },
  /// `if acc % modulus == m { then } else { els }`.
  If { m: Val, modulus: Val, then: Vec<Op>, els: Vec<Op> },
  /// Read resource `res` with an exact checker and run `cases[value % cases.len()]` (absent: case 0).
  Switch { res: usize, cases: Vec<Vec<Op>> },
  /// The task panics (a crashing task).
  Panic,
  Nop,
}

#[derive(Clone, Debug, PartialEq, Eq, Serialize, Deserialize)]
pub struct TaskDef {
  pub key: TaskKey,
  pub ops: Vec<Op>,
}

#[derive(Clone, Copy, Debug, PartialEq, Eq, Serialize, Deserialize)]
pub enum Class { W, V, X, M }

#[derive(Clone, Debug, PartialEq, Eq, Serialize, Deserialize)]
pub struct Program {
  pub class: Class,
  pub tasks: Vec<TaskDef>,
  pub resources: Vec<ResKey>,
  /// Designated writer of a generated resource (class W/X/M: static).
  pub writer: BTreeMap<usize, Tid>,
  /// Only exact checkers are used.
  pub exact_only: bool,
}

impl Program {
  pub fn res_index(&self, key: ResKey) -> Option<usize> { self.resources.iter().position(|r| *r == key) }
  pub fn task_index(&self, key: TaskKey) -> Option<Tid> { self.tasks.iter().position(|t| t.key == key) }
}

#[derive(Clone, Debug, PartialEq, Eq, Serialize, Deserialize)]
pub enum Step {
  /// External change of a resource.
  Change { res: usize, val: Option<Val> },
  /// External touch: same value, new version.
  Touch { res: usize },
  /// Top-down session requiring the roots in order. `keep_going`: a build (one `require`) that aborts is caught inside
  /// the session and the remaining roots are required in the same session.
  TopDown { roots: Vec<Tid>, #[serde(default)] keep_going: bool },
  /// Re-run the previous top-down session with nothing changed.
  Repeat,
  /// Bottom-up session: schedule the reported resources (None = the complete set of changes computed by the harness),
  /// update affected tasks, then require `then_require` in the same session.
  /// `pre_require`: tasks required top-down in the same session before the bottom-up build (resources that those
  /// executions write are added to the report). `shape` bit 0: a first bottom-up build is created, gets the report and
  /// is dropped without being run; bit 1: a second bottom-up build with the same report follows in the same session;
  /// bit 2: a build is created, gets the report and is dropped before the top-down phase.
  BottomUp { report: Option<Vec<usize>>, then_require: Vec<Tid>, #[serde(default)] pre_require: Vec<Tid>, #[serde(default)] shape: u8, #[serde(default)] keep_going: bool,
    /// External changes made while the session is open, after the build(s) above; they are reported to one more
    /// bottom-up build of the same session (a long-lived session that is told about each batch of changes).
    #[serde(default)] mid: Vec<(usize, Option<Val>)> },
  /// New session requiring every task known to the instance.
  ProbeAll,
}

#[derive(Clone, Debug, Default, PartialEq, Eq, Serialize, Deserialize)]
pub struct StepFault {
  pub crash_at: Option<u64>,
  pub check_err_calls: Vec<u64>,
  pub check_err_res: Vec<usize>,
  pub read_err_at: Option<u64>,
  pub write_err_at: Option<u64>,
  /// All injected checker errors of the session carry the same text.
  #[serde(default)]
  pub same_err_text: bool,
}

impl StepFault {
  pub fn is_none(&self) -> bool { self.crash_at.is_none() && self.check_err_calls.is_empty() && self.check_err_res.is_empty() && self.read_err_at.is_none() && self.write_err_at.is_none() }
}

#[derive(Clone, Debug, PartialEq, Eq, Serialize, Deserialize)]
pub struct Scenario {
  pub hash_seed: Option<u64>,
  pub program: Program,
  pub init: Vec<(usize, Val)>,
  pub steps: Vec<Step>,
  /// Faults armed for the session of step i.
  pub faults: BTreeMap<usize, StepFault>,
  /// Replay variants for C16 (0 = none).
  pub replays: u8,
  /// Also replay in a second process with OS-random hash seeds (C16).
  #[serde(default)]
  pub proc_replay: bool,
}

// ---------------------------------------------------------------------------------------------------------------------
// Generation

pub struct GenCfg {
  pub class: Class,
  pub bottom_up: u64,       // percentage of build steps that are bottom-up
  pub td_between: bool,     // arbitrary top-down sessions between bottom-up builds (mix 3)
  pub all_roots_td: bool,   // top-down sessions require all tasks (mix 2)
  pub crash: bool,
  pub check_errors: bool,
  pub rw_errors: bool,
  pub exact_only_pct: u64,
  pub sim_fams_only: bool,
  pub replays: u8,
  /// Many tasks over few resources, bursts of changes: large scheduled sets in bottom-up builds.
  pub big: bool,
  /// Also use wrapper families around the inner type of family 0 (identity probes).
  pub wrappers: bool,
  /// Use pie's file resource (family 4) as a backend too.
  pub files: bool,
  pub proc_replay: bool,
  /// Bottom-up sessions that also require tasks top-down before the build, create a build that is dropped unused, or
  /// run a second build with the same report (all inside one session).
  pub in_session: bool,
  /// Larger bounds: 8..14 tasks, 4..10 resources, 6..16 history steps, longer scripts.
  pub xl: bool,
  /// Aborted builds are caught inside the session, which is then used for further builds.
  pub same_session: bool,
  /// Some reads use checkers whose stamp type is zero-sized (`RK::ZVol`, `RK::ZMost`).
  pub zst: bool,
  /// Long histories (150..300 steps) over small programs: state that accumulates on one instance (counters, epochs,
  /// periodic clean-ups, reused ids).
  pub marathon: bool,
  /// Bottom-up sessions stay open across a batch of external changes that is reported to a further build.
  pub mid_session: bool,
}

impl Default for GenCfg {
  fn default() -> Self {
    GenCfg { class: Class::W, bottom_up: 0, td_between: false, all_roots_td: false, crash: false, check_errors: false, rw_errors: false, exact_only_pct: 40, sim_fams_only: true, replays: 0, big: false, wrappers: false, files: false, proc_replay: false, in_session: false, xl: false, same_session: false, zst: false, marathon: false, mid_session: false }
  }
}

struct TaskGen<'a> {
  rng: &'a mut Rng,
  me: Tid,
  ntasks: usize,
  resources: &'a [ResKey],
  writer: &'a BTreeMap<usize, Tid>,
  exact_only: bool,
  rchk: BTreeMap<usize, RK>,
  ochk: BTreeMap<Tid, OK>,
  wchk: &'a BTreeMap<usize, RK>,
  /// Tasks that (statically, unconditionally at this point of the script) have been required before.
  chain: &'a BTreeMap<Tid, BTreeSet<Tid>>,
  /// Percentage of requires that go to the next task (long require chains) instead of a random later task.
  chain_bias: u64,
}

fn pick_rk(rng: &mut Rng, exact_only: bool) -> RK {
  if exact_only { return RK::Exact; }
  match rng.below(10) {
    0..=3 => RK::Exact,
    4..=5 => RK::Parity,
    6 => RK::Exists,
    7 => RK::Version,
    8 => RK::Thresh(rng.range(1, 4) as Val),
    _ => RK::Always,
  }
}

/// The map resource has no version counter; the modification time of a file written by a task comes from the real
/// clock (coarse granularity), so version stamps are only used on source files, whose mtimes the harness sets.
fn adjust_kind(k: RK, fam: u8, generated: bool) -> RK {
  match (k, fam) {
    (RK::Version, 2 | 3) => RK::Exact,
    (RK::Version, 4) if generated => RK::Exact,
    (RK::ZVol | RK::ZMost(_), 2..) => RK::Exact,
    _ => k,
  }
}

fn pick_ok(rng: &mut Rng, exact_only: bool) -> OK {
  if exact_only { return OK::Equals; }
  match rng.below(10) {
    0..=3 => OK::Equals,
    4 => OK::OkEq,
    5 => OK::ErrEq,
    6 => OK::ResultC,
    7 => OK::Always,
    _ => OK::Parity,
  }
}

impl TaskGen<'_> {
  fn rchk_for(&mut self, res: usize) -> RK {
    if let Some(k) = self.rchk.get(&res) { return *k; }
    let mut k = pick_rk(self.rng, self.exact_only);
    if self.resources[res].fam == 4 && !self.writer.contains_key(&res) && !self.exact_only && self.rng.chance(30) { k = RK::Version; }
    k = adjust_kind(k, self.resources[res].fam, self.writer.contains_key(&res));
    if let Some(w) = self.wchk.get(&res) {
      // A reader's checker must not be finer than the writer's checker.
      if !w.determines_obs(&k) { k = *w; }
    }
    self.rchk.insert(res, k);
    k
  }
  fn ochk_for(&mut self, t: Tid) -> OK {
    if let Some(k) = self.ochk.get(&t) { return *k; }
    let k = pick_ok(self.rng, self.exact_only);
    self.ochk.insert(t, k);
    k
  }

  /// `required`: tasks whose require dominates the current point (including what they transitively always require).
  fn ops(&mut self, depth: u32, required: &mut BTreeSet<Tid>, written: &mut BTreeSet<usize>, max_len: u64) -> Vec<Op> {
    let mut ops = vec![];
    let len = self.rng.below(max_len + 1);
    for _ in 0..len {
      match self.rng.below(12) {
        0..=3 => {
          // read
          let res = self.rng.below(self.resources.len() as u64) as usize;
          if let Some(w) = self.writer.get(&res).copied() {
            if w == self.me { continue; } // the writer does not read its own product
            if w < self.me { continue; }  // can only require later tasks
            if !required.contains(&w) {
              let chk = self.ochk_for(w);
              ops.push(Op::Require { task: w, chk });
              required.insert(w);
              if let Some(c) = self.chain.get(&w) { required.extend(c.iter().copied()); }
            }
          }
          let chk = self.rchk_for(res);
          ops.push(Op::Read { res, chk });
        }
        4..=6 => {
          if self.me + 1 < self.ntasks {
            let t = if self.chain_bias > 0 && self.rng.chance(self.chain_bias) { self.me + 1 } else { self.me + 1 + self.rng.below((self.ntasks - self.me - 1) as u64) as usize };
            let chk = self.ochk_for(t);
            ops.push(Op::Require { task: t, chk });
            required.insert(t);
            if let Some(c) = self.chain.get(&t) { required.extend(c.iter().copied()); }
          }
        }
        7..=8 => {
          // write one of my products (at most once per path)
          let mine: Vec<usize> = self.writer.iter().filter(|(r, w)| **w == self.me && !written.contains(*r)).map(|(r, _)| *r).collect();
          if !mine.is_empty() {
            let res = *self.rng.pick(&mine);
            written.insert(res);
            let chk = self.wchk[&res];
            ops.push(Op::Write { res, chk, k: self.rng.below(NVALS as u64 + 1) as Val, via: self.rng.chance(25) });
          }
        }
        9..=10 => {
          if depth < 2 {
            let (mut r1, mut r2) = (required.clone(), required.clone());
            let (mut w1, mut w2) = (written.clone(), written.clone());
            let then = self.ops(depth + 1, &mut r1, &mut w1, 3);
            let els = self.ops(depth + 1, &mut r2, &mut w2, 3);
            // After the branch only what both branches did is guaranteed.
            *required = r1.intersection(&r2).copied().collect();
            *written = w1.union(&w2).copied().collect();
            let modulus = self.rng.range(2, 3) as Val;
            ops.push(Op::If { m: self.rng.below(modulus as u64) as Val, modulus, then, els });
          }
        }
        _ => {
          // repeat an earlier access with the same checker
          if !ops.is_empty() {
            let i = self.rng.below(ops.len() as u64) as usize;
            match &ops[i] {
              Op::Read { .. } | Op::Require { .. } => { let o = ops[i].clone(); ops.push(o); }
              _ => {}
            }
          }
        }
      }
    }
    ops
  }
}

/// Unconditional requires of a script (top level only), in order, with what those transitively always require.
fn always_required(ops: &[Op], chain: &BTreeMap<Tid, BTreeSet<Tid>>) -> BTreeSet<Tid> {
  let mut s = BTreeSet::new();
  for op in ops {
    if let Op::Require { task, .. } = op {
      s.insert(*task);
      if let Some(c) = chain.get(task) { s.extend(c.iter().copied()); }
    }
  }
  s
}

pub fn gen_keys(rng: &mut Rng, ntasks: usize, nres: usize, sim_only: bool, wrappers: bool, files: bool) -> (Vec<TaskKey>, Vec<ResKey>) {
  let wide = ntasks > 8 || nres > 8;
  // Ids are drawn from a small range so that different families share ids (identity = (type, value)).
  let mut tasks = vec![];
  while tasks.len() < ntasks {
    let k = if wrappers { TaskKey { fam: *rng.pick(&[0u8, 0, 5, 5, 6, 1, 2]), id: rng.below(if wide { 4 } else { 2 }) as u32 } } else { TaskKey { fam: rng.below(5) as u8, id: rng.below(4) as u32 } };
    if !tasks.contains(&k) { tasks.push(k); }
  }
  let mut res = vec![];
  let nfam = if files { 5 } else if sim_only { 2 } else { 4 };
  while res.len() < nres {
    let k = ResKey { fam: rng.below(nfam) as u8, id: rng.below(if wide { 7 } else { 4 }) as u32 };
    if !res.contains(&k) { res.push(k); }
  }
  (tasks, res)
}

pub fn gen_program_w(rng: &mut Rng, cfg: &GenCfg) -> Program {
  // (replay configurations: more resources, so that many resource nodes are without dependents at times)
  let (ntasks, nres) = if cfg.marathon { if cfg.replays > 0 { (rng.range(4, 7) as usize, rng.range(6, 9) as usize) } else { (rng.range(3, 6) as usize, rng.range(3, 6) as usize) } } else if cfg.xl { (rng.range(8, 14) as usize, if cfg.big { rng.range(3, 6) } else { rng.range(4, 10) } as usize) } else if cfg.big { (rng.range(5, 8) as usize, rng.range(2, 4) as usize) } else { (rng.range(2, 8) as usize, rng.range(2, 8) as usize) };
  gen_program_w_sized(rng, cfg, ntasks, nres)
}

pub fn gen_program_w_sized(rng: &mut Rng, cfg: &GenCfg, ntasks: usize, nres: usize) -> Program {
  let exact_only = rng.chance(cfg.exact_only_pct);
  let (keys, resources) = gen_keys(rng, ntasks, nres, cfg.sim_fams_only, cfg.wrappers, cfg.files);
  let mut writer = BTreeMap::new();
  let mut wchk = BTreeMap::new();
  let gen_pct = if cfg.big { rng.range(0, 35) } else { rng.range(20, 60) };
  for r in 0..nres {
    if rng.chance(gen_pct) {
      writer.insert(r, rng.below(ntasks as u64) as usize);
      let k = if exact_only || rng.chance(60) { RK::Exact } else { pick_rk(rng, false) };
      wchk.insert(r, adjust_kind(k, resources[r].fam, true));
    }
  }
  let mut tasks: Vec<TaskDef> = keys.iter().map(|k| TaskDef { key: *k, ops: vec![] }).collect();
  let mut chain: BTreeMap<Tid, BTreeSet<Tid>> = BTreeMap::new();
  let max_len = if cfg.xl { rng.range(3, 8) } else { rng.range(2, 6) };
  // Larger bounds: 40 % of the programs are biased towards long require chains (deep execution stacks).
  let chain_bias = if cfg.xl && rng.chance(40) { rng.range(50, 90) } else { 0 };
  for me in (0..ntasks).rev() {
    let mut g = TaskGen { rng, me, ntasks, resources: &resources, writer: &writer, exact_only, rchk: BTreeMap::new(), ochk: BTreeMap::new(), wchk: &wchk, chain: &chain, chain_bias };
    let mut required = BTreeSet::new();
    let mut written = BTreeSet::new();
    let mut ops = g.ops(0, &mut required, &mut written, max_len);
    // Make sure designated products are usually written.
    for (r, w) in writer.iter() {
      if *w == me && !written.contains(r) && g.rng.chance(85) {
        ops.push(Op::Write { res: *r, chk: wchk[r], k: g.rng.below(NVALS as u64 + 1) as Val, via: g.rng.chance(25) });
      }
    }
    let ar = always_required(&ops, &chain);
    chain.insert(me, ar);
    tasks[me].ops = ops;
  }
  Program { class: Class::W, tasks, resources, writer, exact_only }
}

/// Replaces the checker of some (task, resource) read pairs by a zero-sized-stamp kind (all reads of that resource by
/// that task alike: one checker per target per execution). Simulated families only; a read of a generated resource
/// gets `ZVol` (observes the value) only when the writer's checker determines the value.
pub fn add_zst_checkers(rng: &mut Rng, p: &mut Program) {
  if p.exact_only { return; }
  fn wchk_of(ops: &[Op], r: usize) -> Option<RK> {
    for op in ops { match op { Op::Write { res, chk, .. } if *res == r => return Some(*chk), Op::If { then, els, .. } => { if let Some(k) = wchk_of(then, r).or_else(|| wchk_of(els, r)) { return Some(k); } } Op::Switch { cases, .. } => { for c in cases { if let Some(k) = wchk_of(c, r) { return Some(k); } } } _ => {} } }
    None
  }
  fn replace(ops: &mut [Op], r: usize, k: RK) {
    for op in ops.iter_mut() { match op { Op::Read { res, chk } if *res == r => { *chk = k; } Op::If { then, els, .. } => { replace(then, r, k); replace(els, r, k); } Op::Switch { cases, .. } => { for c in cases.iter_mut() { replace(c, r, k); } } _ => {} } }
  }
  for t in 0..p.tasks.len() {
    let mut reads = vec![];
    reads_of(&p.tasks[t].ops, &mut reads);
    let mut seen = BTreeSet::new();
    for (r, _) in reads {
      if !seen.insert(r) || p.resources[r].fam >= 2 { continue; }
      // The mode resource of class V / Switch reads keep their exact checker (Switch reads are not `Read` ops anyway).
      if !rng.chance(30) { continue; }
      let mut k = if rng.chance(50) { RK::ZVol } else { RK::ZMost(rng.range(0, 4) as Val) };
      let writer_kind = p.writer.get(&r).and_then(|w| wchk_of(&p.tasks[*w].ops, r)).or_else(|| p.tasks.iter().find_map(|td| wchk_of(&td.ops, r)));
      if let Some(wk) = writer_kind { if !wk.determines_obs(&k) { k = RK::ZMost(rng.range(0, 4) as Val); } }
      replace(&mut p.tasks[t].ops, r, k);
    }
    // Requires: all requires of one task by this task alike.
    fn requires_of(ops: &[Op], out: &mut Vec<Tid>) { for op in ops { match op { Op::Require { task, .. } => out.push(*task), Op::If { then, els, .. } => { requires_of(then, out); requires_of(els, out); } Op::Switch { cases, .. } => { for c in cases { requires_of(c, out); } } _ => {} } } }
    fn replace_req(ops: &mut [Op], u: Tid, k: OK) { for op in ops.iter_mut() { match op { Op::Require { task, chk } if *task == u => { *chk = k; } Op::If { then, els, .. } => { replace_req(then, u, k); replace_req(els, u, k); } Op::Switch { cases, .. } => { for c in cases.iter_mut() { replace_req(c, u, k); } } _ => {} } } }
    let mut reqs = vec![];
    requires_of(&p.tasks[t].ops, &mut reqs);
    let mut seen_t = BTreeSet::new();
    for u in reqs {
      if !seen_t.insert(u) || !rng.chance(25) { continue; }
      let k = if rng.chance(50) { OK::ZNever } else { OK::ZBelow(rng.range(0, 4) as Val) };
      replace_req(&mut p.tasks[t].ops, u, k);
    }
  }
}

pub fn gen_history(rng: &mut Rng, prog: &Program, cfg: &GenCfg) -> (Vec<(usize, Val)>, Vec<Step>, BTreeMap<usize, StepFault>) {
  let nres = prog.resources.len();
  let ntasks = prog.tasks.len();
  let has_mode = prog.tasks.iter().all(|t| matches!(t.ops.first(), Some(Op::Switch { .. })));
  let mut init = vec![];
  let init_pct = rng.range(40, 90);
  for r in 0..nres { if rng.chance(init_pct) { init.push((r, rng.below(NVALS as u64) as Val)); } }
  let nsteps = if cfg.marathon { rng.range(150, 300) as usize } else if cfg.xl { rng.range(6, 16) as usize } else if cfg.big { rng.range(4, 12) as usize } else { rng.range(2, 10) as usize };
  let mut steps = vec![];
  let mut faults = BTreeMap::new();
  let root_pct = rng.range(20, 70);
  let roots = |rng: &mut Rng, all: bool| -> Vec<Tid> {
    if all { let mut v: Vec<Tid> = (0..ntasks).collect(); if rng.chance(50) { v.reverse(); } return v; }
    let mut v: Vec<Tid> = (0..ntasks).filter(|_| rng.chance(root_pct)).collect();
    if v.is_empty() { v.push(rng.below(ntasks as u64) as usize); }
    // arbitrary order, possibly with repetition
    for i in (1..v.len()).rev() { let j = rng.below(i as u64 + 1) as usize; v.swap(i, j); }
    if rng.chance(15) { let x = *rng.pick(&v); v.push(x); }
    v
  };
  let all0 = cfg.all_roots_td || rng.chance(30);
  steps.push(Step::TopDown { roots: roots(rng, all0), keep_going: false });
  let mut had_td = true;
  while steps.len() < nsteps {
    match rng.below(10) {
      0..=4 => {
        let burst = if cfg.big { rng.range(1, 3) } else { 1 };
        for _ in 0..burst {
          let mut res = rng.below(nres as u64) as usize;
          if has_mode && rng.chance(40) { res = nres - 1; }
          match rng.below(10) {
            0 => steps.push(Step::Touch { res }),
            1..=2 => steps.push(Step::Change { res, val: None }),
            _ => steps.push(Step::Change { res, val: Some(rng.below(NVALS as u64) as Val) }),
          }
        }
      }
      5..=8 => {
        if rng.chance(cfg.bottom_up) {
          let then_require = if rng.chance(40) { roots(rng, false) } else { vec![] };
          let pre_require = if cfg.in_session && rng.chance(45) { roots(rng, false) } else { vec![] };
          let mut shape = if cfg.in_session { *rng.pick(&[0u8, 0, 0, 0, 1, 2, 2, 3]) } else { 0 };
          if cfg.in_session && !pre_require.is_empty() && rng.chance(35) { shape |= 4; }
          // Sometimes the caller reports more than what changed (every resource, in an arbitrary order): unchanged
          // resources must not schedule anything.
          let report = if cfg.in_session && rng.chance(20) { let mut v: Vec<usize> = (0..nres).collect(); for i in (1..v.len()).rev() { let j = rng.below(i as u64 + 1) as usize; v.swap(i, j); } Some(v) } else { None };
          steps.push(Step::BottomUp { report, then_require, pre_require, shape, keep_going: false, mid: vec![] });
          if rng.chance(70) { steps.push(Step::ProbeAll); }
        } else if cfg.bottom_up == 0 || cfg.td_between || cfg.all_roots_td {
          steps.push(Step::TopDown { roots: roots(rng, cfg.all_roots_td), keep_going: false });
          had_td = true;
        }
      }
      _ => {
        if had_td && matches!(steps.last(), Some(Step::TopDown { .. })) { steps.push(Step::Repeat); } else if rng.chance(50) { steps.push(Step::ProbeAll); }
      }
    }
  }
  // Faults.
  for (i, s) in steps.iter().enumerate() {
    let is_build = matches!(s, Step::TopDown { .. } | Step::BottomUp { .. } | Step::ProbeAll);
    if !is_build { continue; }
    let mut f = StepFault::default();
    if cfg.crash && rng.chance(35) { f.crash_at = Some(if cfg.xl { rng.range(1, 120) } else { rng.range(1, 40) }); }
    if cfg.check_errors && rng.chance(45) {
      if rng.chance(60) {
        let n = rng.range(1, 3);
        for _ in 0..n { f.check_err_calls.push(if cfg.xl { rng.range(1, 30) } else { rng.range(1, 12) }); }
        f.check_err_calls.sort();
        f.check_err_calls.dedup();
      } else {
        f.check_err_res.push(rng.below(nres as u64) as usize);
      }
      f.same_err_text = rng.chance(40);
    }
    if cfg.rw_errors && rng.chance(25) {
      if rng.chance(50) { f.read_err_at = Some(rng.range(1, 8)); } else { f.write_err_at = Some(rng.range(1, 4)); }
    }
    if !f.is_none() { faults.insert(i, f); }
  }
  // Long-lived sessions: a batch of external changes (simulated families only) while the session is open.
  if cfg.mid_session {
    let sim_res: Vec<usize> = (0..nres).filter(|r| prog.resources[*r].fam < 2).collect();
    for st in steps.iter_mut() {
      if let Step::BottomUp { mid, keep_going, .. } = st {
        if !sim_res.is_empty() && !*keep_going && rng.chance(60) {
          for _ in 0..rng.range(1, 3) {
            let mut r = *rng.pick(&sim_res);
            if has_mode && rng.chance(40) && prog.resources[nres - 1].fam < 2 { r = nres - 1; }
            let v = if rng.chance(20) { None } else { Some(rng.below(NVALS as u64) as Val) };
            mid.push((r, v));
          }
        }
      }
    }
  }
  // Sessions that go on after an abort: the caller catches the abort of one build and uses the same session further.
  if cfg.same_session {
    for (i, st) in steps.iter_mut().enumerate() {
      let faulted = faults.get(&i).map(|f| f.crash_at.is_some()).unwrap_or(false);
      let pct = if faulted || cfg.class == Class::X { 80 } else { 30 };
      match st {
        Step::TopDown { roots, keep_going } => {
          if rng.chance(pct) {
            *keep_going = true;
            // More builds in the session: require some tasks again after the others.
            if rng.chance(60) { let extra: Vec<Tid> = (0..ntasks).filter(|_| rng.chance(40)).collect(); roots.extend(extra); }
          }
        }
        Step::BottomUp { then_require, keep_going, .. } => {
          if rng.chance(pct) {
            *keep_going = true;
            if then_require.is_empty() || rng.chance(40) { let extra: Vec<Tid> = (0..ntasks).filter(|_| rng.chance(50)).collect(); then_require.extend(extra); }
          }
        }
        _ => {}
      }
    }
  }
  // Faults with workload: in crash + bottom-up mixes, half of the crashed builds are directly followed by an external
  // change and a bottom-up build, so that the records an abort leaves behind meet scheduling and nested requires.
  if cfg.crash && cfg.bottom_up > 0 {
    let crashed: Vec<usize> = faults.iter().filter(|(_, f)| f.crash_at.is_some()).map(|(i, _)| *i).collect();
    for i in crashed {
      if i + 2 < steps.len() && rng.chance(50) && !faults.contains_key(&(i + 1)) && !faults.contains_key(&(i + 2)) {
        let res = if has_mode && rng.chance(50) { nres - 1 } else { rng.below(nres as u64) as usize };
        steps[i + 1] = Step::Change { res, val: Some(rng.below(NVALS as u64) as Val) };
        steps[i + 2] = Step::BottomUp { report: None, then_require: vec![], pre_require: vec![], shape: 0, keep_going: false, mid: vec![] };
      }
    }
  }
  (init, steps, faults)
}

fn insert_op(rng: &mut Rng, ops: &mut Vec<Op>, op: Op) {
  let guarded = if rng.chance(40) { let modulus = rng.range(2, 3) as Val; Op::If { m: rng.below(modulus as u64) as Val, modulus, then: vec![op], els: vec![] } } else { op };
  let pos = rng.below(ops.len() as u64 + 1) as usize;
  ops.insert(pos, guarded);
}

fn reads_of(ops: &[Op], out: &mut Vec<(usize, RK)>) {
  for op in ops {
    match op {
      Op::Read { res, chk } => out.push((*res, *chk)),
      Op::If { then, els, .. } => { reads_of(then, out); reads_of(els, out); }
      Op::Switch { res, cases } => { out.push((*res, RK::Exact)); for c in cases { reads_of(c, out); } }
      _ => {}
    }
  }
}

/// Class X: a class-W program plus one injected op that may create a hidden dependency, an overlapping write or a
/// cyclic require in some states.
pub fn gen_program_x(rng: &mut Rng, cfg: &GenCfg, want: u64) -> Program {
  let mut p = gen_program_w(rng, cfg);
  p.class = Class::X;
  inject_x(rng, &mut p, want);
  p
}

/// Injects one potential violation into a class-W (sub-)program.
pub fn inject_x(rng: &mut Rng, p: &mut Program, want: u64) {
  let ntasks = p.tasks.len();
  for _attempt in 0..8 {
    match want {
      0 => {
        // hidden read: a task reads a generated resource without requiring its writer
        let gens: Vec<(usize, Tid)> = p.writer.iter().map(|(r, w)| (*r, *w)).collect();
        if gens.is_empty() { continue; }
        let (r, w) = *rng.pick(&gens);
        let t = rng.below(ntasks as u64) as usize;
        if t == w { continue; }
        let mut chk = pick_rk(rng, p.exact_only);
        // The injected read must not observe more than the writer's checker guards (from-scratch equality premise).
        fn wchk_of(ops: &[Op], r: usize) -> Option<RK> {
          for op in ops { match op { Op::Write { res, chk, .. } if *res == r => return Some(*chk), Op::If { then, els, .. } => { if let Some(k) = wchk_of(then, r).or_else(|| wchk_of(els, r)) { return Some(k); } } _ => {} } }
          None
        }
        if let Some(wk) = wchk_of(&p.tasks[w].ops, r) { if !wk.determines_obs(&chk) { chk = wk; } }
        chk = adjust_kind(chk, p.resources[r].fam, true);
        insert_op(rng, &mut p.tasks[t].ops, Op::Read { res: r, chk });
        return;
      }
      1 => {
        // hidden write: a task writes a resource that another task reads without requiring the new writer
        let mut cands: Vec<(usize, Tid, RK)> = vec![];
        for (t, td) in p.tasks.iter().enumerate() { let mut v = vec![]; reads_of(&td.ops, &mut v); for (r, k) in v { if !p.writer.contains_key(&r) { cands.push((r, t, k)); } } }
        if cands.is_empty() { continue; }
        let (r, reader, _) = *rng.pick(&cands);
        let u = rng.below(ntasks as u64) as usize;
        if u == reader { continue; }
        let op = Op::Write { res: r, chk: RK::Exact, k: rng.below(NVALS as u64 + 1) as Val, via: rng.chance(30) };
        insert_op(rng, &mut p.tasks[u].ops, op);
        return;
      }
      2 => {
        // overlapping write: a second task writes a generated resource
        let gens: Vec<(usize, Tid)> = p.writer.iter().map(|(r, w)| (*r, *w)).collect();
        if gens.is_empty() { continue; }
        let (r, w) = *rng.pick(&gens);
        let u = rng.below(ntasks as u64) as usize;
        if u == w { continue; }
        let op = Op::Write { res: r, chk: RK::Exact, k: rng.below(NVALS as u64 + 1) as Val, via: rng.chance(30) };
        insert_op(rng, &mut p.tasks[u].ops, op);
        return;
      }
      4 => {
        // un-dominated read: the require of the writer that dominates a read of a generated resource becomes
        // value-dependent, so the read is hidden in some states only (and the records of an earlier state still
        // contain the require)
        let mut cands: Vec<(Tid, usize)> = vec![];
        for (t, td) in p.tasks.iter().enumerate() {
          for (i, op) in td.ops.iter().enumerate() {
            if let Op::Require { task, .. } = op {
              let feeds = td.ops[i + 1..].iter().any(|o| { let mut v = vec![]; reads_of(std::slice::from_ref(o), &mut v); v.iter().any(|(r, _)| p.writer.get(r) == Some(task)) });
              if feeds { cands.push((t, i)); }
            }
          }
        }
        if cands.is_empty() { return inject_x(rng, p, 0); }
        let (t, i) = *rng.pick(&cands);
        let req = p.tasks[t].ops[i].clone();
        let modulus = rng.range(2, 3) as Val;
        let guarded = Op::If { m: rng.below(modulus as u64) as Val, modulus, then: vec![req], els: vec![] };
        p.tasks[t].ops[i] = guarded;
        // Something must be observed before the guard, else it is constant.
        if i == 0 || rng.chance(50) {
          let srcs: Vec<usize> = (0..p.resources.len()).filter(|r| !p.writer.contains_key(r)).collect();
          if !srcs.is_empty() {
            let r = *rng.pick(&srcs);
            let mut existing = vec![]; reads_of(&p.tasks[t].ops, &mut existing);
            let chk = existing.iter().find(|(x, _)| *x == r).map(|(_, k)| *k).unwrap_or(RK::Exact);
            let chk = adjust_kind(chk, p.resources[r].fam, false);
            p.tasks[t].ops.insert(0, Op::Read { res: r, chk });
          }
        }
        return;
      }
      _ => {
        // back-require closing a cycle of length 1..n
        let b = rng.below(ntasks as u64) as usize;
        let a = rng.below(b as u64 + 1) as usize;
        let chk = pick_ok(rng, p.exact_only);
        insert_op(rng, &mut p.tasks[b].ops, Op::Require { task: a, chk });
        return;
      }
    }
  }
}

/// Class M: a class-W program in which one task declares a second dependency on one target with a different checker.
pub fn gen_program_m(rng: &mut Rng, cfg: &GenCfg) -> Program {
  let mut p = gen_program_w(rng, cfg);
  p.class = Class::M;
  p.exact_only = false;
  for _ in 0..16 {
    let t = rng.below(p.tasks.len() as u64) as usize;
    if p.tasks[t].ops.is_empty() { continue; }
    let i = rng.below(p.tasks[t].ops.len() as u64) as usize;
    let dup = match &p.tasks[t].ops[i] {
      Op::Read { res, chk } => { let mut k = pick_rk(rng, false); if k == *chk { k = if *chk == RK::Exact { RK::Parity } else { RK::Exact }; } Some(Op::Read { res: *res, chk: k }) }
      Op::Require { task, chk } => { let mut k = pick_ok(rng, false); if k == *chk { k = if *chk == OK::Equals { OK::ResultC } else { OK::Equals }; } Some(Op::Require { task: *task, chk: k }) }
      _ => None,
    };
    if let Some(d) = dup {
      let pos = if rng.chance(50) { i + 1 } else { p.tasks[t].ops.len() };
      p.tasks[t].ops.insert(pos, d);
      return p;
    }
  }
  p
}

fn remap_tasks(ops: &[Op], perm: &[usize]) -> Vec<Op> {
  ops.iter().map(|op| match op {
    Op::Require { task, chk } => Op::Require { task: perm[*task], chk: *chk },
    Op::If { m, modulus, then, els } => Op::If { m: *m, modulus: *modulus, then: remap_tasks(then, perm), els: remap_tasks(els, perm) },
    Op::Write { res, k, via, .. } => Op::Write { res: *res, chk: RK::Exact, k: *k, via: *via },
    other => other.clone(),
  }).collect()
}

/// Class V: two or three class-W sub-programs over the same task and resource ids with different role assignments
/// (who writes a resource, who reads it, who requires whom), selected by a mode resource that every task reads first.
/// Every single state is violation-free.
pub fn gen_program_v(rng: &mut Rng, cfg: &GenCfg) -> Program { gen_program_v_inj(rng, cfg, None) }

/// Class X over dynamic roles: as class V, but one of the sub-programs carries one injected potential violation
/// (`inject_x`), so a violation arises right after the roles of all tasks changed.
pub fn gen_program_vx(rng: &mut Rng, cfg: &GenCfg, want: u64) -> Program {
  let mut p = gen_program_v_inj(rng, cfg, Some(want));
  p.class = Class::X;
  p
}

fn gen_program_v_inj(rng: &mut Rng, cfg: &GenCfg, inject: Option<u64>) -> Program {
  let (ntasks, nres) = if cfg.marathon { (rng.range(3, 5) as usize, rng.range(2, 4) as usize) } else if cfg.xl { (rng.range(6, 10) as usize, rng.range(3, 7) as usize) } else if cfg.big { (rng.range(4, 7) as usize, rng.range(2, 4) as usize) } else { (rng.range(2, 6) as usize, rng.range(2, 5) as usize) };
  let ncases = rng.range(2, 3) as usize;
  let mut c2 = GenCfg { exact_only_pct: cfg.exact_only_pct, big: cfg.big, xl: cfg.xl, marathon: cfg.marathon, ..GenCfg::default() };
  c2.sim_fams_only = cfg.sim_fams_only;
  let base = gen_program_w_sized(rng, &c2, ntasks, nres);
  let mut cases: Vec<Vec<Vec<Op>>> = vec![vec![]; ntasks]; // per task: per case: ops
  let inject_case = if inject.is_some() { rng.below(ncases as u64) as usize } else { usize::MAX };
  for case in 0..ncases {
    let mut sub = if case == 0 { base.clone() } else { let mut p = gen_program_w_sized(rng, &c2, ntasks, nres); p.exact_only = base.exact_only; p };
    if case == inject_case { inject_x(rng, &mut sub, inject.unwrap_or(0)); }
    // Random relabelling of the tasks (identity for case 0) inverts require directions between cases.
    let mut perm: Vec<usize> = (0..ntasks).collect();
    if case > 0 { for i in (1..ntasks).rev() { let j = rng.below(i as u64 + 1) as usize; perm.swap(i, j); } }
    let mut per_task: Vec<Vec<Op>> = vec![vec![]; ntasks];
    for i in 0..ntasks { per_task[perm[i]] = remap_tasks(&sub.tasks[i].ops, &perm); }
    for t in 0..ntasks { cases[t].push(std::mem::take(&mut per_task[t])); }
  }
  let mut resources = base.resources.clone();
  // The mode resource: a fresh key.
  let mut mode = ResKey { fam: 0, id: 7 };
  while resources.contains(&mode) { mode.id += 1; }
  resources.push(mode);
  let mode_idx = resources.len() - 1;
  let tasks: Vec<TaskDef> = (0..ntasks).map(|t| TaskDef { key: base.tasks[t].key, ops: vec![Op::Switch { res: mode_idx, cases: cases[t].clone() }] }).collect();
  Program { class: Class::V, tasks, resources, writer: BTreeMap::new(), exact_only: false }
}
