//! Deterministic simulation with fault injection for Gohla/pie. See /verif/DESIGN.md.
mod common;
mod rng;
mod specs;
mod e2_dag;
mod e1;
mod e4_state;
mod e3_fs;

use common::{install_panic_hook, replay, run_check};

fn usage() -> i32 {
  eprintln!("usage: sim check <PROPERTY> <quick|thorough> | sim replay <file> | sim list");
  2
}

fn main() {
  install_panic_hook();
  let args: Vec<String> = std::env::args().collect();
  let code = match args.get(1).map(|s| s.as_str()) {
    Some("check") => {
      let (Some(prop), Some(tier)) = (args.get(2), args.get(3)) else { std::process::exit(usage()); };
      specs::check(prop, tier)
    }
    Some("replay") => {
      let Some(path) = args.get(2) else { std::process::exit(usage()); };
      let Ok(text) = std::fs::read_to_string(path) else { eprintln!("cannot read {path}"); std::process::exit(2); };
      let engine = serde_json::from_str::<serde_json::Value>(&text).ok().and_then(|v| v.get("engine").and_then(|e| e.as_str().map(|s| s.to_string()))).unwrap_or_default();
      match engine.as_str() {
        "e2-dag" => replay(&e2_dag::DagEngine, &text, path),
        "e1-build" => replay(&e1::BuildEngine, &text, path),
        "e4-state" => replay(&e4_state::StateEngine, &text, path),
        "e3-fs" => replay(&e3_fs::FsEngine, &text, path),
        other => { eprintln!("unknown engine {other:?} in {path}"); 2 }
      }
    }
    Some("list") => { specs::list(); 0 }
    Some("digest-scn") => { let Some(path) = args.get(2) else { std::process::exit(2); }; e1::digest_scenario_file(path) }
    Some("digest") => {
      // sim digest <engine> <config> <prop> <from> <n> [random-hash]: one line per run with a digest of everything observable.
      use common::Engine;
      let eng = args.get(2).cloned().unwrap_or_default();
      let config = args.get(3).cloned().unwrap_or_default();
      let prop = args.get(4).cloned().unwrap_or_default();
      let from: u64 = args.get(5).and_then(|s| s.parse().ok()).unwrap_or(0);
      let n: u64 = args.get(6).and_then(|s| s.parse().ok()).unwrap_or(100);
      let random_hash = args.get(7).map(|s| s == "random-hash").unwrap_or(false);
      let cfgs = specs::configs_of(&prop);
      let ci = cfgs.iter().position(|c| *c == config).unwrap_or(0);
      for i in from..from + n {
        let stream = rng::hash_str(&prop) ^ rng::hash_str(&config).rotate_left(7) ^ (ci as u64);
        let seed = rng::mix(common::master_seed(), stream, i);
        let mut r = rng::Rng::new(seed);
        let mut h = 0xcbf2_9ce4_8422_2325u64;
        let mut add = |text: &str| { for b in text.bytes() { common::fnv(&mut h, b as u64); } };
        match eng.as_str() {
          "e1" => { let e = e1::BuildEngine; let mut scn = e.generate(&mut r, &config, &prop); scn.replays = 0; if random_hash { scn.hash_seed = None; } let out = e.run(&scn, &prop); add(&format!("{:?}{:?}{}{:?}", out.violations, out.stats.0, out.trace_hash, out.harness_error)); for l in e1::log_lines_pub() { add(&l); } }
          "e2" => { let e = e2_dag::DagEngine; let mut scn = e.generate(&mut r, &config, &prop); if random_hash { scn.hash_seed = scn.hash_seed.wrapping_mul(31).wrapping_add(7); } let out = e.run(&scn, &prop); add(&format!("{:?}{:?}{}", out.violations, out.stats.0, out.steps)); }
          "e3" => { let e = e3_fs::FsEngine; let scn = e.generate(&mut r, &config, &prop); let out = e.run(&scn, &prop); add(&format!("{:?}{:?}{}{}", out.violations, out.stats.0, out.trace_hash, out.steps)); }
          _ => { let e = e4_state::StateEngine; let scn = e.generate(&mut r, &config, &prop); let out = e.run(&scn, &prop); add(&format!("{:?}{:?}{}{}", out.violations, out.stats.0, out.trace_hash, out.steps)); }
        }
        println!("{i} {h:016x}");
      }
      0
    }
    Some("run1") => {
      // sim run1 <engine> <config> <prop> <index> [n]   (debugging aid: generate run <index> of a config and print what fires)
      use common::Engine;
      let config = args.get(3).cloned().unwrap_or_default();
      let prop = args.get(4).cloned().unwrap_or_default();
      let index: u64 = args.get(5).and_then(|s| s.parse().ok()).unwrap_or(0);
      let n: u64 = args.get(6).and_then(|s| s.parse().ok()).unwrap_or(1);
      let cfgs = specs::configs_of(&prop);
      let ci = cfgs.iter().position(|c| *c == config).unwrap_or(0);
      for i in index..index + n {
        let stream = rng::hash_str(&prop) ^ rng::hash_str(&config).rotate_left(7) ^ (ci as u64);
        let seed = rng::mix(common::master_seed(), stream, i);
        let mut r = rng::Rng::new(seed);
        match args.get(2).map(|s| s.as_str()) {
          Some("e1") => { let e = e1::BuildEngine; let scn = e.generate(&mut r, &config, &prop); let out = e.run(&scn, &prop); if n == 1 { println!("{}", serde_json::to_string(&scn).unwrap()); } println!("run {i}: violations={:?} harness_error={:?} stats={:?}", out.violations, out.harness_error, out.stats.0); }
          _ => { let e = e2_dag::DagEngine; let scn = e.generate(&mut r, &config, &prop); let out = e.run(&scn, &prop); println!("run {i}: {:?}", out.violations); }
        }
      }
      0
    }
    _ => usage(),
  };
  std::process::exit(code);
}

#[allow(dead_code)]
fn _unused() { let _ = run_check::<e2_dag::DagEngine>; }
