//! Deterministic simulation with fault injection for Gohla/pie. See /verif/DESIGN.md.
mod common;
mod rng;
mod specs;
mod e2_dag;

use common::{install_panic_hook, replay, run_check};

fn usage() -> i32 {
  eprintln!("usage: sim check <PROPERTY> <quick|thorough> | sim replay <file> | sim list");
  2
}

fn main() {
  install_panic_hook();
  let args: Vec<String> = std::env::args().collect();
  let code = match args.get(1).map(|s| s.as_str()) {
    Some("check") => {
      let (Some(prop), Some(tier)) = (args.get(2), args.get(3)) else { std::process::exit(usage()); };
      specs::check(prop, tier)
    }
    Some("replay") => {
      let Some(path) = args.get(2) else { std::process::exit(usage()); };
      let Ok(text) = std::fs::read_to_string(path) else { eprintln!("cannot read {path}"); std::process::exit(2); };
      let engine = serde_json::from_str::<serde_json::Value>(&text).ok().and_then(|v| v.get("engine").and_then(|e| e.as_str().map(|s| s.to_string()))).unwrap_or_default();
      match engine.as_str() {
        "e2-dag" => replay(&e2_dag::DagEngine, &text, path),
        other => { eprintln!("unknown engine {other:?} in {path}"); 2 }
      }
    }
    Some("list") => { specs::list(); 0 }
    _ => usage(),
  };
  std::process::exit(code);
}

#[allow(dead_code)]
fn _unused() { let _ = run_check::<e2_dag::DagEngine>; }
