//! E4 state-sim: operation histories over pie's in-memory map resource (`MapKey`, `MapWriter`, `MapEqualsChecker`) and
//! the typed per-resource-type state (`ResourceState` / `TypeToAnyMap`) reached through `Pie::resource_state(_mut)`,
//! against a map-of-maps reference model. Decides C14.
use std::any::Any;
use std::collections::{BTreeMap, HashMap};

use pie::resource::map::{GetGlobalMap, MapEqualsChecker, MapKey, MapKeyObjToObj, MapKeyToObj, MapValueObj};
use pie::trait_object::KeyObj;
use pie::{Context, Pie, Resource, ResourceChecker, ResourceState, Task};
use serde::{Deserialize, Serialize};
use serde_json::{json, Value};

use crate::common::{catch, fnv, Engine, RunOutcome, Stats, Violation};
use crate::e1::world::{SimWorld, R};
use crate::rng::Rng;

/// Key types with identical representation; `KA` and `KB` even share the value type.
#[derive(Clone, Copy, PartialEq, Eq, Hash, Debug)]
pub struct KA(pub u8);
#[derive(Clone, Copy, PartialEq, Eq, Hash, Debug)]
pub struct KB(pub u8);
#[derive(Clone, Copy, PartialEq, Eq, Hash, Debug)]
pub struct KC(pub u8);
impl MapKey for KA { type Value = i64; }
impl MapKey for KB { type Value = i64; }
impl MapKey for KC { type Value = String; }

/// Inner key types of the trait-object keyed map `MapKeyObjToObj`: identical representation / hash / Debug-free
/// equality per pair, and two field-less types (all boxed values of field-less types live at one address).
#[derive(Clone, Copy, PartialEq, Eq, Hash, Debug)]
pub struct DK1(pub u8);
#[derive(Clone, Copy, PartialEq, Eq, Hash, Debug)]
pub struct DK2(pub u8);
#[derive(Clone, Copy, PartialEq, Eq, Hash, Debug)]
pub struct DZ1;
#[derive(Clone, Copy, PartialEq, Eq, Hash, Debug)]
pub struct DZ2;
/// Value types behind `Box<dyn MapValueObj>`.
#[derive(Clone, Copy, PartialEq, Eq, Debug)]
pub struct DV1(pub i64);
#[derive(Clone, Copy, PartialEq, Eq, Debug)]
pub struct DV2(pub i64);
#[derive(Clone, Copy, PartialEq, Eq, Debug)]
pub struct DOn;
#[derive(Clone, Copy, PartialEq, Eq, Debug)]
pub struct DOff;

/// (inner key type, key byte) -> trait-object key. Field-less key types ignore the byte.
fn dkey(kty: u8, key: u8) -> Box<dyn KeyObj> {
  match kty % 5 { 0 => Box::new(DK1(key)), 1 => Box::new(DK2(key)), 2 => Box::new(DZ1), 3 => Box::new(DZ2), _ => Box::new(key) }
}
fn dkey_norm(kty: u8, key: u8) -> (u8, u8) { let t = kty % 5; (t, if t == 2 || t == 3 { 0 } else { key }) }
fn dkey_render(k: &dyn KeyObj) -> (u8, u8) {
  let a = k.as_any();
  if let Some(x) = a.downcast_ref::<DK1>() { return (0, x.0); }
  if let Some(x) = a.downcast_ref::<DK2>() { return (1, x.0); }
  if a.is::<DZ1>() { return (2, 0); }
  if a.is::<DZ2>() { return (3, 0); }
  if let Some(x) = a.downcast_ref::<u8>() { return (4, *x); }
  (255, 255)
}
fn dval(vty: u8, val: i64) -> Box<dyn MapValueObj> {
  match vty % 4 { 0 => Box::new(DV1(val)), 1 => Box::new(DV2(val)), 2 => Box::new(DOn), _ => Box::new(DOff) }
}
fn dval_norm(vty: u8, val: i64) -> (u8, i64) { let t = vty % 4; (t, if t >= 2 { 0 } else { val }) }
fn dval_render(v: &dyn MapValueObj) -> (u8, i64) {
  let a = v.as_any();
  if let Some(x) = a.downcast_ref::<DV1>() { return (0, x.0); }
  if let Some(x) = a.downcast_ref::<DV2>() { return (1, x.0); }
  if a.is::<DOn>() { return (2, 0); }
  if a.is::<DOff>() { return (3, 0); }
  (255, -1)
}

/// Resource types that share one `Pie`: 0 = KA, 1 = KB, 2 = KC, 3 = R<0>, 4 = R<1>, 5 = MapKeyObjToObj (trait-object
/// keys and values), 6 = MapKeyToObj<KA> (typed keys, trait-object values).
pub const NRT: usize = 7;

#[derive(Clone, Copy, Debug, PartialEq, Eq, Serialize, Deserialize)]
pub enum StKind { Map, I32, Str }

#[derive(Clone, Debug, PartialEq, Eq, Serialize, Deserialize)]
pub enum StOp {
  /// Direct edits of the global map through `resource_state_mut().get_global_map_mut()`.
  DirectInsert { kt: u8, key: u8, val: i64 },
  DirectRemove { kt: u8, key: u8 },
  /// `Resource::read` of a key.
  Read { kt: u8, key: u8 },
  /// `Resource::write` + writer operation: 0 insert, 1 get, 2 get_mut (+1), 3 entry().or_insert, 4 entry remove, 5 entry and_modify(+10).or_insert.
  Writer { kt: u8, key: u8, how: u8, val: i64 },
  /// Stamp through all three routes and remember the stamp in a slot.
  Stamp { kt: u8, key: u8, slot: u8 },
  /// Check a remembered stamp (slot) for its key against the current state.
  Check { slot: u8 },
  /// Raw typed state access for resource type `rt`: how = 0 get, 1 get_mut(+modify), 2 set, 3 get_boxed, 4 get_boxed_mut(replace), 5 set_boxed, 6 get_or_set_default, 7 get_or_set_default_mut(+modify).
  Raw { rt: u8, how: u8, st: StKind, val: i64 },
  /// The task identified by (kt, src): reads key `src` through the context with the equality checker and writes key
  /// `10 + src` = value + 1 (or removes it when absent) through the context with a writer. Incremental: pie may reuse it.
  CopyTask { kt: u8, src: u8, dst: u8 },
  /// Fault: a task (identity (kt, key)) writes key `20 + key` through the context and panics: `when` = 0 inside the write
  /// function before storing, 1 inside it after storing `val`, 2 after the write returned. The panic is caught and the
  /// same Pie is used further: everything stored so far (and the completed part of the write) must still be there.
  CrashTask { kt: u8, key: u8, val: i64, when: u8 },
  /// Operations on the trait-object maps (`obj`: false = `MapKeyObjToObj`, true = `MapKeyToObj<KA>`): how = 0 direct
  /// insert, 1 direct remove, 2 `Resource::read`, 3 writer insert, 4 writer get, 5 writer entry-remove, 6 stamp by
  /// three routes into `slot`, 7 check the stamp in `slot`, 8 a task that reads the key through the context and copies
  /// what it saw to key byte + 10 (same inner key type) through the context.
  Dyn { obj: bool, how: u8, kty: u8, key: u8, vty: u8, val: i64, slot: u8 },
}

#[derive(Clone, Debug, Serialize, Deserialize)]
pub struct StScn { pub ops: Vec<StOp> }

pub struct StateEngine;

/// Model of the state stored for one resource type.
#[derive(Clone, Debug, PartialEq)]
enum MState {
  MapI(BTreeMap<u8, i64>),
  MapS(BTreeMap<u8, String>),
  I32(i32),
  Str(String),
  World,
  /// (inner key type, key byte) -> (value type, value).
  MapD(BTreeMap<(u8, u8), (u8, i64)>),
}

#[derive(Clone, Default)]
struct Model { st: Vec<Option<MState>> }

fn sval(v: i64) -> String { format!("s{v}") }

/// Ensures the state of map resource type `kt` is a map (what `get_global_map(_mut)` does).
fn ensure_map(m: &mut Model, kt: usize) {
  let is_map = matches!((&m.st[kt], kt), (Some(MState::MapI(_)), 0 | 1) | (Some(MState::MapS(_)), 2) | (Some(MState::MapD(_)), 5 | 6));
  if !is_map { m.st[kt] = Some(if kt >= 5 { MState::MapD(BTreeMap::new()) } else if kt == 2 { MState::MapS(BTreeMap::new()) } else { MState::MapI(BTreeMap::new()) }); }
}

#[derive(Clone, PartialEq, Eq, Hash, Debug)]
struct Copy { kt: u8, src: u8, dst: u8 }
impl Task for Copy {
  type Output = Option<i64>;
  fn execute<C: Context>(&self, c: &mut C) -> Option<i64> {
    match self.kt {
      0 => {
        let v = c.read(&KA(self.src), MapEqualsChecker).unwrap().copied();
        c.write(&KA(self.dst), MapEqualsChecker, |w| { match v { Some(v) => { w.insert(v + 1); } None => { if let std::collections::hash_map::Entry::Occupied(e) = w.entry() { e.remove(); } } } Ok(()) }).unwrap();
        v
      }
      1 => {
        let v = c.read(&KB(self.src), MapEqualsChecker).unwrap().copied();
        c.write(&KB(self.dst), MapEqualsChecker, |w| { match v { Some(v) => { w.insert(v + 1); } None => { if let std::collections::hash_map::Entry::Occupied(e) = w.entry() { e.remove(); } } } Ok(()) }).unwrap();
        v
      }
      _ => {
        let v = c.read(&KC(self.src), MapEqualsChecker).unwrap().cloned();
        let n = v.as_ref().map(|s| s.len() as i64);
        c.write(&KC(self.dst), MapEqualsChecker, |w| { match &v { Some(v) => { w.insert(format!("{v}+")); } None => { if let std::collections::hash_map::Entry::Occupied(e) = w.entry() { e.remove(); } } } Ok(()) }).unwrap();
        n
      }
    }
  }
}

/// Task over the trait-object maps: reads a key through the context and copies what it saw to key byte + 10.
#[derive(Clone, PartialEq, Eq, Hash, Debug)]
struct DynCopy { obj: bool, kty: u8, key: u8 }
impl Task for DynCopy {
  type Output = Option<(u8, i64)>;
  fn execute<C: Context>(&self, c: &mut C) -> Self::Output {
    use std::collections::hash_map::Entry;
    if self.obj {
      let v: Option<Box<dyn MapValueObj>> = c.read(&MapKeyToObj(KA(self.key)), MapEqualsChecker).unwrap().cloned();
      let out = v.as_ref().map(|b| dval_render(b.as_ref()));
      c.write(&MapKeyToObj(KA(self.key + 10)), MapEqualsChecker, |w| { match v { Some(b) => { w.insert(b); } None => { if let Entry::Occupied(e) = w.entry() { e.remove(); } } } Ok(()) }).unwrap();
      out
    } else {
      let v: Option<Box<dyn MapValueObj>> = c.read(&MapKeyObjToObj(dkey(self.kty, self.key)), MapEqualsChecker).unwrap().cloned();
      let out = v.as_ref().map(|b| dval_render(b.as_ref()));
      c.write(&MapKeyObjToObj(dkey(self.kty, self.key + 10)), MapEqualsChecker, |w| { match v { Some(b) => { w.insert(b); } None => { if let Entry::Occupied(e) = w.entry() { e.remove(); } } } Ok(()) }).unwrap();
      out
    }
  }
}

pub const CRASH_TASK_MSG: &str = "SIM-E4-CRASH";

#[derive(Clone, Debug)]
struct Crasher { kt: u8, key: u8, val: i64, when: u8 }
impl PartialEq for Crasher { fn eq(&self, o: &Self) -> bool { self.kt == o.kt && self.key == o.key } }
impl Eq for Crasher {}
impl std::hash::Hash for Crasher { fn hash<H: std::hash::Hasher>(&self, h: &mut H) { self.kt.hash(h); self.key.hash(h); } }
impl Task for Crasher {
  type Output = ();
  fn execute<C: Context>(&self, c: &mut C) {
    let (when, val) = (self.when, self.val);
    match self.kt {
      0 => { c.write(&KA(self.key), MapEqualsChecker, |w| { if when == 0 { panic!("{}", CRASH_TASK_MSG); } w.insert(val); if when == 1 { panic!("{}", CRASH_TASK_MSG); } Ok(()) }).unwrap(); }
      1 => { c.write(&KB(self.key), MapEqualsChecker, |w| { if when == 0 { panic!("{}", CRASH_TASK_MSG); } w.insert(val); if when == 1 { panic!("{}", CRASH_TASK_MSG); } Ok(()) }).unwrap(); }
      _ => { c.write(&KC(self.key), MapEqualsChecker, |w| { if when == 0 { panic!("{}", CRASH_TASK_MSG); } w.insert(sval(val)); if when == 1 { panic!("{}", CRASH_TASK_MSG); } Ok(()) }).unwrap(); }
    }
    panic!("{}", CRASH_TASK_MSG);
  }
}

/// Observes the complete state of every resource type through the immutable accessors.
fn observe(pie: &Pie<()>) -> Vec<Option<MState>> {
  fn one<Rt: Resource>(pie: &Pie<()>, kt: usize) -> Option<MState> {
    let rs = pie.resource_state::<Rt>();
    let boxed = rs.get_boxed()?;
    let any: &dyn Any = boxed.as_ref();
    if let Some(v) = any.downcast_ref::<i32>() { return Some(MState::I32(*v)); }
    if let Some(v) = any.downcast_ref::<String>() { return Some(MState::Str(v.clone())); }
    if any.downcast_ref::<SimWorld>().is_some() { return Some(MState::World); }
    match kt {
      0 => any.downcast_ref::<HashMap<KA, i64>>().map(|m| MState::MapI(m.iter().map(|(k, v)| (k.0, *v)).collect())),
      1 => any.downcast_ref::<HashMap<KB, i64>>().map(|m| MState::MapI(m.iter().map(|(k, v)| (k.0, *v)).collect())),
      2 => any.downcast_ref::<HashMap<KC, String>>().map(|m| MState::MapS(m.iter().map(|(k, v)| (k.0, v.clone())).collect())),
      5 => any.downcast_ref::<HashMap<MapKeyObjToObj, Box<dyn MapValueObj>>>().map(|m| MState::MapD(m.iter().map(|(k, v)| (dkey_render(k.0.as_ref()), dval_render(v.as_ref()))).collect())),
      6 => any.downcast_ref::<HashMap<MapKeyToObj<KA>, Box<dyn MapValueObj>>>().map(|m| MState::MapD(m.iter().map(|(k, v)| ((0, k.0 .0), dval_render(v.as_ref()))).collect())),
      _ => None,
    }.or(Some(MState::Str("<unknown state type>".into())))
  }
  vec![one::<KA>(pie, 0), one::<KB>(pie, 1), one::<KC>(pie, 2), one::<R<0>>(pie, 3), one::<R<1>>(pie, 4), one::<MapKeyObjToObj>(pie, 5), one::<MapKeyToObj<KA>>(pie, 6)]
}

macro_rules! with_rt {
  ($rt:expr, $pie:expr, |$rs:ident| $body:expr) => {
    match $rt {
      0 => { let $rs = $pie.resource_state_mut::<KA>(); $body }
      1 => { let $rs = $pie.resource_state_mut::<KB>(); $body }
      2 => { let $rs = $pie.resource_state_mut::<KC>(); $body }
      3 => { let $rs = $pie.resource_state_mut::<R<0>>(); $body }
      4 => { let $rs = $pie.resource_state_mut::<R<1>>(); $body }
      5 => { let $rs = $pie.resource_state_mut::<MapKeyObjToObj>(); $body }
      _ => { let $rs = $pie.resource_state_mut::<MapKeyToObj<KA>>(); $body }
    }
  };
}

/// Raw typed access on a `ResourceState`; returns a rendering of what the call returned.
fn raw<Rt: Resource, RS: ResourceState<Rt>>(rs: &mut RS, how: u8, st: StKind, val: i64, rt: usize) -> String {
  fn natural_map_default<RS2, Rt2: Resource>(_: &RS2) {}
  let _ = natural_map_default::<RS, Rt>;
  match (how, st) {
    (0, StKind::I32) => format!("{:?}", rs.get::<i32>()),
    (0, StKind::Str) => format!("{:?}", rs.get::<String>()),
    (0, StKind::Map) => match rt { 0 => format!("{:?}", rs.get::<HashMap<KA, i64>>().map(|m| m.len())), 1 => format!("{:?}", rs.get::<HashMap<KB, i64>>().map(|m| m.len())), 2 => format!("{:?}", rs.get::<HashMap<KC, String>>().map(|m| m.len())), _ => format!("{:?}", rs.get::<HashMap<KA, i64>>().map(|m| m.len())) },
    (1, StKind::I32) => { let r = rs.get_mut::<i32>(); let s = format!("{:?}", r.as_deref()); if let Some(v) = r { *v += val as i32; } s }
    (1, StKind::Str) => { let r = rs.get_mut::<String>(); let s = format!("{:?}", r.as_deref()); if let Some(v) = r { v.push('x'); } s }
    (1, StKind::Map) => match rt {
      0 => { let r = rs.get_mut::<HashMap<KA, i64>>(); let s = format!("{:?}", r.as_ref().map(|m| m.len())); if let Some(m) = r { m.insert(KA(7), val); } s }
      1 => { let r = rs.get_mut::<HashMap<KB, i64>>(); let s = format!("{:?}", r.as_ref().map(|m| m.len())); if let Some(m) = r { m.insert(KB(7), val); } s }
      2 => { let r = rs.get_mut::<HashMap<KC, String>>(); let s = format!("{:?}", r.as_ref().map(|m| m.len())); if let Some(m) = r { m.insert(KC(7), sval(val)); } s }
      _ => { let r = rs.get_mut::<HashMap<KA, i64>>(); format!("{:?}", r.map(|m| m.len())) }
    },
    (2, StKind::I32) => { rs.set::<i32>(val as i32); String::new() }
    (2, StKind::Str) => { rs.set::<String>(sval(val)); String::new() }
    (2, StKind::Map) => { match rt { 0 => rs.set(HashMap::<KA, i64>::from([(KA(6), val)])), 1 => rs.set(HashMap::<KB, i64>::from([(KB(6), val)])), 2 => rs.set(HashMap::<KC, String>::from([(KC(6), sval(val))])), _ => rs.set::<i32>(val as i32) }; String::new() }
    (3, _) => format!("{:?}", rs.get_boxed().map(|b| { let a: &dyn Any = b.as_ref(); (a.is::<i32>(), a.is::<String>()) })),
    (4, _) => { let r = rs.get_boxed_mut(); let s = format!("{:?}", r.is_some()); if let Some(b) = r { *b = Box::new(val as i32); } s }
    (5, StKind::Str) => { rs.set_boxed(Box::new(sval(val))); String::new() }
    (5, _) => { rs.set_boxed(Box::new(val as i32)); String::new() }
    (6, StKind::I32) => format!("{:?}", rs.get_or_set_default::<i32>()),
    (6, StKind::Str) => format!("{:?}", rs.get_or_set_default::<String>()),
    (6, StKind::Map) => match rt { 0 => format!("{:?}", rs.get_or_set_default::<HashMap<KA, i64>>().len()), 1 => format!("{:?}", rs.get_or_set_default::<HashMap<KB, i64>>().len()), 2 => format!("{:?}", rs.get_or_set_default::<HashMap<KC, String>>().len()), _ => format!("{:?}", rs.get_or_set_default::<i32>()) },
    (_, StKind::I32) => { let v = rs.get_or_set_default_mut::<i32>(); let s = format!("{:?}", v); *v += val as i32; s }
    (_, StKind::Str) => { let v = rs.get_or_set_default_mut::<String>(); let s = format!("{:?}", v); v.push('y'); s }
    (_, StKind::Map) => match rt {
      0 => { let m = rs.get_or_set_default_mut::<HashMap<KA, i64>>(); let s = format!("{:?}", m.len()); m.insert(KA(5), val); s }
      1 => { let m = rs.get_or_set_default_mut::<HashMap<KB, i64>>(); let s = format!("{:?}", m.len()); m.insert(KB(5), val); s }
      2 => { let m = rs.get_or_set_default_mut::<HashMap<KC, String>>(); let s = format!("{:?}", m.len()); m.insert(KC(5), sval(val)); s }
      _ => { let v = rs.get_or_set_default_mut::<i32>(); let s = format!("{:?}", v); *v += val as i32; s }
    },
  }
}

/// The same raw access on the model.
fn raw_model(m: &mut Model, rt: usize, how: u8, st: StKind, val: i64) -> String {
  let cur = m.st[rt].clone();
  let map_len = |s: &Option<MState>| -> Option<usize> { match (s, rt) { (Some(MState::MapI(x)), 0 | 1) => Some(x.len()), (Some(MState::MapS(x)), 2) => Some(x.len()), _ => None } };
  // For resource types 3/4 "Map" stands for HashMap<KA,i64> in get/get_mut and for i32 elsewhere (see `raw`).
  match (how, st) {
    (0, StKind::I32) => format!("{:?}", if let Some(MState::I32(v)) = &cur { Some(v) } else { None }),
    (0, StKind::Str) => format!("{:?}", if let Some(MState::Str(v)) = &cur { Some(v) } else { None }),
    (0, StKind::Map) => format!("{:?}", map_len(&cur)),
    (1, StKind::I32) => { if let Some(MState::I32(v)) = &mut m.st[rt] { let s = format!("{:?}", Some(&*v)); *v += val as i32; s } else { "None".into() } }
    (1, StKind::Str) => { if let Some(MState::Str(v)) = &mut m.st[rt] { let s = format!("{:?}", Some(v.as_str())); v.push('x'); s } else { "None".into() } }
    (1, StKind::Map) => {
      let s = format!("{:?}", map_len(&cur));
      match (&mut m.st[rt], rt) { (Some(MState::MapI(x)), 0 | 1) => { x.insert(7, val); } (Some(MState::MapS(x)), 2) => { x.insert(7, sval(val)); } _ => {} }
      s
    }
    (2, StKind::I32) => { m.st[rt] = Some(MState::I32(val as i32)); String::new() }
    (2, StKind::Str) => { m.st[rt] = Some(MState::Str(sval(val))); String::new() }
    (2, StKind::Map) => { m.st[rt] = Some(match rt { 0 | 1 => MState::MapI(BTreeMap::from([(6, val)])), 2 => MState::MapS(BTreeMap::from([(6, sval(val))])), _ => MState::I32(val as i32) }); String::new() }
    (3, _) => format!("{:?}", cur.as_ref().map(|s| (matches!(s, MState::I32(_)), matches!(s, MState::Str(_))))),
    (4, _) => { let s = format!("{:?}", cur.is_some()); if cur.is_some() { m.st[rt] = Some(MState::I32(val as i32)); } s }
    (5, StKind::Str) => { m.st[rt] = Some(MState::Str(sval(val))); String::new() }
    (5, _) => { m.st[rt] = Some(MState::I32(val as i32)); String::new() }
    (6 | 7, StKind::I32) | (6 | 7, StKind::Map) if st == StKind::I32 || rt >= 3 => {
      if !matches!(cur, Some(MState::I32(_))) { m.st[rt] = Some(MState::I32(0)); }
      let Some(MState::I32(v)) = &mut m.st[rt] else { unreachable!() };
      let s = format!("{:?}", v);
      if how == 7 { *v += val as i32; }
      s
    }
    (6 | 7, StKind::Str) => {
      if !matches!(cur, Some(MState::Str(_))) { m.st[rt] = Some(MState::Str(String::new())); }
      let Some(MState::Str(v)) = &mut m.st[rt] else { unreachable!() };
      let s = format!("{:?}", v);
      if how == 7 { v.push('y'); }
      s
    }
    (_, _) => {
      ensure_map(m, rt);
      match &mut m.st[rt] {
        Some(MState::MapI(x)) => { let s = format!("{:?}", x.len()); if how == 7 { x.insert(5, val); } s }
        Some(MState::MapS(x)) => { let s = format!("{:?}", x.len()); if how == 7 { x.insert(5, sval(val)); } s }
        _ => unreachable!(),
      }
    }
  }
}

#[derive(Clone, Debug, PartialEq)]
enum SVal { I(Option<i64>), S(Option<String>) }

impl StateEngine {
  fn read_real(pie: &mut Pie<()>, kt: u8, key: u8) -> SVal {
    match kt {
      0 => SVal::I(KA(key).read(pie.resource_state_mut::<KA>()).unwrap().copied()),
      1 => SVal::I(KB(key).read(pie.resource_state_mut::<KB>()).unwrap().copied()),
      _ => SVal::S(KC(key).read(pie.resource_state_mut::<KC>()).unwrap().cloned()),
    }
  }
  fn read_model(m: &mut Model, kt: u8, key: u8) -> SVal {
    ensure_map(m, kt as usize);
    match &m.st[kt as usize] { Some(MState::MapI(x)) => SVal::I(x.get(&key).copied()), Some(MState::MapS(x)) => SVal::S(x.get(&key).cloned()), _ => unreachable!() }
  }
}

impl Engine for StateEngine {
  type Scn = StScn;
  fn name(&self) -> &'static str { "e4-state" }

  fn generate(&self, rng: &mut Rng, _config: &str, _prop: &str) -> StScn {
    let n = rng.range(3, 40) as usize;
    let w_raw = rng.range(0, 5);
    let nkeys = rng.range(1, 3);
    let w_dyn = *rng.pick(&[0u64, 0, 20, 40, 70]);
    let mut ops = vec![];
    for _ in 0..n {
      let kt = rng.below(3) as u8;
      let key = if rng.chance(12) { 10 + rng.below(nkeys) as u8 } else { rng.below(nkeys) as u8 };
      let val = rng.below(5) as i64;
      if rng.chance(w_dyn) {
        let obj = rng.chance(30);
        let how = *rng.pick(&[0u8, 0, 1, 2, 2, 3, 4, 5, 6, 7, 7, 8]);
        // Tasks copy to key byte + 10 of the same inner key type: only types that carry the byte.
        let kty = if how == 8 { *rng.pick(&[0u8, 1, 4]) } else { rng.below(5) as u8 };
        ops.push(StOp::Dyn { obj, how, kty: if obj { 0 } else { kty }, key: key % 10, vty: rng.below(4) as u8, val, slot: rng.below(4) as u8 });
        continue;
      }
      let op = match rng.below(11 + w_raw) {
        0..=1 => StOp::DirectInsert { kt, key, val },
        2 => StOp::DirectRemove { kt, key },
        3..=4 => StOp::Read { kt, key },
        5..=6 => StOp::Writer { kt, key, how: rng.below(6) as u8, val },
        7 => StOp::Stamp { kt, key, slot: rng.below(4) as u8 },
        8..=9 => StOp::Check { slot: rng.below(4) as u8 },
        10 => if rng.chance(35) { StOp::CrashTask { kt, key: key % 10, val, when: rng.below(3) as u8 } } else { StOp::CopyTask { kt, src: key % 10, dst: 0 } },
        _ => StOp::Raw { rt: rng.below(NRT as u64) as u8, how: rng.below(8) as u8, st: *rng.pick(&[StKind::Map, StKind::I32, StKind::Str]), val },
      };
      ops.push(op);
    }
    StScn { ops }
  }

  fn run(&self, scn: &StScn, _prop: &str) -> RunOutcome {
    let mut out = RunOutcome::default();
    let mut stats = Stats::default();
    let mut pie: Pie<()> = Pie::default();
    let mut model = Model { st: vec![None; NRT] };
    let mut slots: BTreeMap<u8, (u8, u8, SVal)> = BTreeMap::new();
    let mut dslots: BTreeMap<u8, (bool, (u8, u8), Option<(u8, i64)>)> = BTreeMap::new();
    let mut fp = 0xcbf2_9ce4_8422_2325u64;
    let mut vs: Vec<Violation> = vec![];
    let mut cross = false;
    for (step, op) in scn.ops.iter().enumerate() {
      for b in format!("{:?}", op).bytes() { fnv(&mut fp, b as u64); }
      let before = model.st.clone();
      let r = catch(|| -> Option<String> {
        match op.clone() {
          StOp::DirectInsert { kt, key, val } => {
            ensure_map(&mut model, kt as usize);
            match kt {
              0 => { let g = pie.resource_state_mut::<KA>().get_global_map_mut().insert(KA(key), val); let MState::MapI(x) = model.st[0].as_mut().unwrap() else { unreachable!() }; let e = x.insert(key, val); if g != e { return Some(format!("insert returned {:?}, model {:?}", g, e)); } }
              1 => { let g = pie.resource_state_mut::<KB>().get_global_map_mut().insert(KB(key), val); let MState::MapI(x) = model.st[1].as_mut().unwrap() else { unreachable!() }; let e = x.insert(key, val); if g != e { return Some(format!("insert returned {:?}, model {:?}", g, e)); } }
              _ => { let g = pie.resource_state_mut::<KC>().get_global_map_mut().insert(KC(key), sval(val)); let MState::MapS(x) = model.st[2].as_mut().unwrap() else { unreachable!() }; let e = x.insert(key, sval(val)); if g != e { return Some(format!("insert returned {:?}, model {:?}", g, e)); } }
            }
            None
          }
          StOp::DirectRemove { kt, key } => {
            ensure_map(&mut model, kt as usize);
            match kt {
              0 => { let g = pie.resource_state_mut::<KA>().get_global_map_mut().remove(&KA(key)); let MState::MapI(x) = model.st[0].as_mut().unwrap() else { unreachable!() }; let e = x.remove(&key); if g != e { return Some(format!("remove returned {:?}, model {:?}", g, e)); } }
              1 => { let g = pie.resource_state_mut::<KB>().get_global_map_mut().remove(&KB(key)); let MState::MapI(x) = model.st[1].as_mut().unwrap() else { unreachable!() }; let e = x.remove(&key); if g != e { return Some(format!("remove returned {:?}, model {:?}", g, e)); } }
              _ => { let g = pie.resource_state_mut::<KC>().get_global_map_mut().remove(&KC(key)); let MState::MapS(x) = model.st[2].as_mut().unwrap() else { unreachable!() }; let e = x.remove(&key); if g != e { return Some(format!("remove returned {:?}, model {:?}", g, e)); } }
            }
            None
          }
          StOp::Read { kt, key } => {
            let g = Self::read_real(&mut pie, kt, key);
            let e = Self::read_model(&mut model, kt, key);
            if g != e { return Some(format!("read of key {key} of key type {kt} returned {:?}, model {:?}", g, e)); }
            None
          }
          StOp::Writer { kt, key, how, val } => {
            ensure_map(&mut model, kt as usize);
            macro_rules! wr {
              ($K:ident, $mk:expr, $variant:ident, $mkval:expr) => {{
                let k = $K(key);
                let mut w = k.write(pie.resource_state_mut::<$K>()).unwrap();
                let MState::$variant(x) = model.st[kt as usize].as_mut().unwrap() else { unreachable!() };
                let v = $mkval;
                let (g, e): (String, String) = match how {
                  0 => (format!("{:?}", w.insert(v.clone())), format!("{:?}", x.insert(key, v.clone()))),
                  1 => (format!("{:?}", w.get()), format!("{:?}", x.get(&key))),
                  2 => { let g = format!("{:?}", w.get()); if let Some(c) = w.get_mut() { *c = v.clone(); } let e = format!("{:?}", x.get(&key)); if let Some(c) = x.get_mut(&key) { *c = v.clone(); } (g, e) }
                  3 => (format!("{:?}", w.entry().or_insert(v.clone())), format!("{:?}", x.entry(key).or_insert(v.clone()))),
                  4 => { let g = if let std::collections::hash_map::Entry::Occupied(o) = w.entry() { format!("{:?}", Some(o.remove())) } else { "None".to_string() }; (g, format!("{:?}", x.remove(&key))) }
                  _ => (format!("{:?}", w.entry().and_modify(|c| *c = v.clone()).or_insert(v.clone())), format!("{:?}", x.entry(key).and_modify(|c| *c = v.clone()).or_insert(v.clone()))),
                };
                // The writer's view after the operation.
                let gv = format!("{:?}", w.get());
                let ev = format!("{:?}", x.get(&key));
                if g != e || gv != ev { return Some(format!("writer op {how} on key {key} of key type {kt} returned {g} (then sees {gv}), model {e} (then {ev})")); }
              }};
            }
            match kt { 0 => wr!(KA, 0, MapI, val), 1 => wr!(KB, 1, MapI, val), _ => wr!(KC, 2, MapS, sval(val)) }
            None
          }
          StOp::Stamp { kt, key, slot } => {
            let e = Self::read_model(&mut model, kt, key);
            macro_rules! st {
              ($K:ident, $conv:expr) => {{
                let k = $K(key);
                let s1 = MapEqualsChecker.stamp(&k, pie.resource_state_mut::<$K>()).unwrap();
                let s2 = { let mut rd = k.read(pie.resource_state_mut::<$K>()).unwrap(); let s = MapEqualsChecker.stamp_reader(&k, &mut rd).unwrap(); if rd.cloned() != s { return Some(format!("reader of key {key} changed by stamping")); } s };
                let s3 = { let w = k.write(pie.resource_state_mut::<$K>()).unwrap(); MapEqualsChecker.stamp_writer(&k, w).unwrap() };
                if s1 != s2 || s2 != s3 { return Some(format!("stamp routes disagree for key {key} of key type {kt}: path {:?}, reader {:?}, writer {:?}", s1, s2, s3)); }
                let g = $conv(s1);
                if g != e { return Some(format!("stamp of key {key} of key type {kt} is {:?}, model value {:?}", g, e)); }
              }};
            }
            match kt { 0 => st!(KA, |s| SVal::I(s)), 1 => st!(KB, |s| SVal::I(s)), _ => st!(KC, |s| SVal::S(s)) }
            slots.insert(slot, (kt, key, e));
            None
          }
          StOp::Check { slot } => {
            let Some((kt, key, stamped)) = slots.get(&slot).cloned() else { return None; };
            let cur = Self::read_model(&mut model, kt, key);
            let expect_incons = cur != stamped;
            let got = match (&stamped, kt) {
              (SVal::I(s), 0) => MapEqualsChecker.check(&KA(key), pie.resource_state_mut::<KA>(), s).unwrap().is_some(),
              (SVal::I(s), _) => MapEqualsChecker.check(&KB(key), pie.resource_state_mut::<KB>(), s).unwrap().is_some(),
              (SVal::S(s), _) => MapEqualsChecker.check(&KC(key), pie.resource_state_mut::<KC>(), s).unwrap().is_some(),
            };
            if got != expect_incons { return Some(format!("equality checker says inconsistent={got} for key {key} of key type {kt}: stamped {:?}, current {:?}", stamped, cur)); }
            None
          }
          StOp::Raw { rt, how, st, val } => {
            let g = with_rt!(rt, pie, |rs| raw(rs, how, st, val, rt as usize));
            let e = raw_model(&mut model, rt as usize, how, st, val);
            if g != e { return Some(format!("raw state access how={how} state type {:?} on resource type {rt} returned {g}, model {e}", st)); }
            None
          }
          StOp::CopyTask { kt, src, dst } => {
            let sv = Self::read_model(&mut model, kt, src);
            let dst = 10 + src;
            let task = Copy { kt, src, dst };
            let got = pie.new_session().require(&task);
            let exp = match &sv { SVal::I(v) => *v, SVal::S(v) => v.as_ref().map(|s| s.len() as i64) };
            match (&mut model.st[kt as usize], sv) {
              (Some(MState::MapI(x)), SVal::I(Some(v))) => { x.insert(dst, v + 1); }
              (Some(MState::MapI(x)), SVal::I(None)) => { x.remove(&dst); }
              (Some(MState::MapS(x)), SVal::S(Some(v))) => { x.insert(dst, format!("{v}+")); }
              (Some(MState::MapS(x)), SVal::S(None)) => { x.remove(&dst); }
              _ => {}
            }
            if got != exp { return Some(format!("task reading key {src} of key type {kt} through the context saw {:?}, model {:?}", got, exp)); }
            None
          }
          StOp::Dyn { obj, how, kty, key, vty, val, slot } => {
            let rt = if obj { 6 } else { 5 };
            let (nk, nv) = (dkey_norm(if obj { 0 } else { kty }, key), dval_norm(vty, val));
            if how != 7 { ensure_map(&mut model, rt); }
            macro_rules! dynop {
              ($K:ty, $mk:expr, $mk10:expr) => {{
                let k: $K = $mk;
                let Some(MState::MapD(x)) = model.st[rt].as_mut() else { unreachable!() };
                let rend = |o: Option<&Box<dyn MapValueObj>>| o.map(|b| dval_render(b.as_ref()));
                match how {
                  0 => { let g = pie.resource_state_mut::<$K>().get_global_map_mut().insert(k, dval(vty, val)); let e = x.insert(nk, nv); if rend(g.as_ref()) != e { return Some(format!("direct insert of trait-object key {:?} returned {:?}, model {:?}", nk, rend(g.as_ref()), e)); } }
                  1 => { let g = pie.resource_state_mut::<$K>().get_global_map_mut().remove(&k); let e = x.remove(&nk); if rend(g.as_ref()) != e { return Some(format!("direct remove of trait-object key {:?} returned {:?}, model {:?}", nk, rend(g.as_ref()), e)); } }
                  2 => { let g = rend(k.read(pie.resource_state_mut::<$K>()).unwrap()); let e = x.get(&nk).copied(); if g != e { return Some(format!("read of trait-object key {:?} returned {:?}, model {:?}", nk, g, e)); } }
                  3 | 4 | 5 => {
                    let mut w = k.write(pie.resource_state_mut::<$K>()).unwrap();
                    let (g, e) = match how {
                      3 => (rend(w.insert(dval(vty, val)).as_ref()), x.insert(nk, nv)),
                      4 => (rend(w.get()), x.get(&nk).copied()),
                      _ => (if let std::collections::hash_map::Entry::Occupied(o) = w.entry() { rend(Some(&o.remove())) } else { None }, x.remove(&nk)),
                    };
                    let (gv, ev) = (rend(w.get()), x.get(&nk).copied());
                    if g != e || gv != ev { return Some(format!("writer op {how} on trait-object key {:?} returned {:?} (then sees {:?}), model {:?} (then {:?})", nk, g, gv, e, ev)); }
                  }
                  6 => {
                    let e = x.get(&nk).copied();
                    let s1 = MapEqualsChecker.stamp(&k, pie.resource_state_mut::<$K>()).unwrap();
                    let s2 = { let mut rd = k.read(pie.resource_state_mut::<$K>()).unwrap(); MapEqualsChecker.stamp_reader(&k, &mut rd).unwrap() };
                    let s3 = { let w = k.write(pie.resource_state_mut::<$K>()).unwrap(); MapEqualsChecker.stamp_writer(&k, w).unwrap() };
                    if s1 != s2 || s2 != s3 { return Some(format!("stamp routes disagree for trait-object key {:?}: {:?} / {:?} / {:?}", nk, s1, s2, s3)); }
                    if rend(s1.as_ref()) != e { return Some(format!("stamp of trait-object key {:?} is {:?}, model {:?}", nk, rend(s1.as_ref()), e)); }
                    dslots.insert(slot, (obj, nk, e));
                  }
                  7 => {}
                  _ => {
                    // The task: (obj, inner key type, key byte); reads nk, writes key byte + 10.
                    let seen = x.get(&nk).copied();
                    let dst = (nk.0, nk.1 + 10);
                    match seen { Some(v) => { x.insert(dst, v); } None => { x.remove(&dst); } }
                    let _ = $mk10;
                    let got = pie.new_session().require(&DynCopy { obj, kty: nk.0, key: nk.1 });
                    if got != seen { return Some(format!("task reading trait-object key {:?} through the context saw {:?}, model {:?}", nk, got, seen)); }
                  }
                }
              }};
            }
            if how == 7 {
              // Check a remembered stamp against the current value of its key.
              let Some((sobj, snk, stamped)) = dslots.get(&slot).cloned() else { return None; };
              let srt = if sobj { 6 } else { 5 };
              ensure_map(&mut model, srt);
              let Some(MState::MapD(x)) = model.st[srt].as_ref() else { unreachable!() };
              let cur = x.get(&snk).copied();
              let stamp: Option<Box<dyn MapValueObj>> = stamped.map(|(t, v)| dval(t, v));
              let got = if sobj { MapEqualsChecker.check(&MapKeyToObj(KA(snk.1)), pie.resource_state_mut::<MapKeyToObj<KA>>(), &stamp).unwrap().is_some() } else { MapEqualsChecker.check(&MapKeyObjToObj(dkey(snk.0, snk.1)), pie.resource_state_mut::<MapKeyObjToObj>(), &stamp).unwrap().is_some() };
              if got != (cur != stamped) { return Some(format!("equality checker says inconsistent={got} for trait-object key {:?}: stamped {:?}, current {:?}", snk, stamped, cur)); }
            } else if obj { dynop!(MapKeyToObj<KA>, MapKeyToObj(KA(nk.1)), ()) } else { dynop!(MapKeyObjToObj, MapKeyObjToObj(dkey(nk.0, nk.1)), ()) }
            None
          }
          StOp::CrashTask { kt, key, val, when } => {
            let task = Crasher { kt, key: 20 + key, val, when };
            let r = catch(|| pie.new_session().require(&task));
            // Opening the writer makes sure the map exists; the store happened unless the panic came first.
            ensure_map(&mut model, kt as usize);
            if when >= 1 {
              match &mut model.st[kt as usize] { Some(MState::MapI(x)) => { x.insert(20 + key, val); } Some(MState::MapS(x)) => { x.insert(20 + key, sval(val)); } _ => {} }
            }
            match r {
              Err(p) if p.msg.starts_with(CRASH_TASK_MSG) => None,
              Err(p) => Some(format!("the crashing task aborted with something else than its own panic: {}", p.short())),
              Ok(()) => Some("the crashing task returned".to_string()),
            }
          }
        }
      });
      match r {
        Ok(None) => {}
        Ok(Some(msg)) => { vs.push(Violation::new(&["C14"], "state-op-result", step, msg)); break; }
        Err(p) => {
          // A task that reads and writes the same key is rejected by pie (hidden dependency on itself): not a C14 matter.
          let _ = &before;
          vs.push(Violation::new(&["C14"], "state-op-panic", step, format!("operation {:?} panicked: {}", op, p.short())));
          break;
        }
      }
      out.steps += 1;
      // Isolation: the complete observable state of every resource type equals the model.
      let obs = observe(&pie);
      if obs != model.st {
        let which = (0..NRT).find(|i| obs[*i] != model.st[*i]).unwrap_or(0);
        let touched = match op { StOp::Raw { rt, .. } => *rt as usize, StOp::DirectInsert { kt, .. } | StOp::DirectRemove { kt, .. } | StOp::Read { kt, .. } | StOp::Writer { kt, .. } | StOp::Stamp { kt, .. } | StOp::CopyTask { kt, .. } | StOp::CrashTask { kt, .. } => *kt as usize, StOp::Dyn { obj, .. } => if *obj { 6 } else { 5 }, StOp::Check { slot } => slots.get(slot).map(|s| s.0 as usize).unwrap_or(0) };
        vs.push(Violation::new(&["C14"], if which == touched { "state-content" } else { "state-isolation" }, step, format!("after {:?} the state of resource type {which} is {:?}, model {:?}", op, obs[which], model.st[which])));
        break;
      }
      if model.st.iter().filter(|s| s.is_some()).count() >= 3 { cross = true; }
      stats.hit(match op { StOp::Raw { .. } => "op_raw", StOp::CopyTask { .. } => "op_task", StOp::CrashTask { .. } => "fault_task_panic_in_write", StOp::Dyn { how: 8, .. } => "op_dyn_task", StOp::Dyn { how: 7, .. } => "op_dyn_check", StOp::Dyn { .. } => "op_dyn", StOp::Check { .. } => "op_check", StOp::Stamp { .. } => "op_stamp", StOp::Writer { .. } => "op_writer", StOp::Read { .. } => "op_read", _ => "op_direct" });
    }
    out.nontrivial = cross && scn.ops.iter().any(|o| matches!(o, StOp::Check { .. } | StOp::Dyn { how: 7, .. }));
    out.fingerprint = fp;
    out.trace_hash = fp;
    out.stats = stats;
    out.violations = vs;
    out
  }

  fn shrink(&self, scn: &StScn) -> Vec<StScn> {
    let n = scn.ops.len();
    let mut c = vec![];
    for cut in [n / 2, n.saturating_sub(1)] { if cut < n { c.push(StScn { ops: scn.ops[..cut].to_vec() }); } }
    for i in (0..n).rev() { let mut ops = scn.ops.clone(); ops.remove(i); c.push(StScn { ops }); }
    c
  }

  fn components(&self) -> Value {
    json!({
      "real": ["pie::resource::map (MapKey blanket Resource impl, MapWriter, GetGlobalMap, MapEqualsChecker, MapKeyToObj, MapKeyObjToObj, MapValueObj)", "pie::trait_object::collection::TypeToAnyMap through Pie::resource_state(_mut)", "Context::read/write for map keys inside a session"],
      "stub": ["nothing: all state lives in the real Pie instance"],
      "reference_model": "map from resource type to (state type, content)",
    })
  }
}

/// Rebuilds a `Pie` whose resource state equals the model (after an operation that pie legitimately rejected).
fn rebuild(model: &Model) -> Pie<()> {
  let mut pie: Pie<()> = Pie::default();
  for (rt, st) in model.st.iter().enumerate() {
    match (st, rt) {
      (Some(MState::MapI(x)), 0) => { pie.resource_state_mut::<KA>().set(x.iter().map(|(k, v)| (KA(*k), *v)).collect::<HashMap<KA, i64>>()); }
      (Some(MState::MapI(x)), 1) => { pie.resource_state_mut::<KB>().set(x.iter().map(|(k, v)| (KB(*k), *v)).collect::<HashMap<KB, i64>>()); }
      (Some(MState::MapS(x)), 2) => { pie.resource_state_mut::<KC>().set(x.iter().map(|(k, v)| (KC(*k), v.clone())).collect::<HashMap<KC, String>>()); }
      (Some(MState::I32(v)), _) => { let v = *v; with_rt!(rt as u8, pie, |rs| rs.set::<i32>(v)); }
      (Some(MState::Str(v)), _) => { let v = v.clone(); with_rt!(rt as u8, pie, |rs| rs.set::<String>(v)); }
      _ => {}
    }
  }
  pie
}
