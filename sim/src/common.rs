//! Batch runner, evidence, replay files, known findings. Shared by all engines.
use std::cell::RefCell;
use std::collections::{BTreeMap, BTreeSet, HashSet};
use std::panic::{catch_unwind, AssertUnwindSafe};
use std::sync::atomic::{AtomicU64, Ordering};
use std::sync::Mutex;
use std::time::Instant;

use serde::de::DeserializeOwned;
use serde::{Deserialize, Serialize};
use serde_json::{json, Value};

use crate::rng::{hash_str, mix, Rng};

/// Root of the verification tree: `VERIF_DIR` (set by `./check` to its own directory), else `/verif`.
pub fn verif_dir() -> String { std::env::var("VERIF_DIR").ok().filter(|s| !s.is_empty()).unwrap_or_else(|| "/verif".to_string()) }

// ---------------------------------------------------------------------------------------------------------------------
// Panic capture

#[derive(Clone, Debug, Default)]
pub struct PanicInfo {
  pub msg: String,
  pub file: String,
  pub line: u32,
}

thread_local! {
  static LAST_PANIC: RefCell<Option<PanicInfo>> = const { RefCell::new(None) };
}

pub fn install_panic_hook() {
  std::panic::set_hook(Box::new(|info| {
    let msg = if let Some(s) = info.payload().downcast_ref::<&str>() {
      s.to_string()
    } else if let Some(s) = info.payload().downcast_ref::<String>() {
      s.clone()
    } else {
      "<non-string panic payload>".to_string()
    };
    let (file, line) = info.location().map(|l| (l.file().to_string(), l.line())).unwrap_or_default();
    LAST_PANIC.with(|p| *p.borrow_mut() = Some(PanicInfo { msg, file, line }));
  }));
}

pub fn take_panic() -> Option<PanicInfo> { LAST_PANIC.with(|p| p.borrow_mut().take()) }

/// Runs `f`, catching a panic and returning what the hook recorded.
pub fn catch<R>(f: impl FnOnce() -> R) -> Result<R, PanicInfo> {
  take_panic();
  match catch_unwind(AssertUnwindSafe(f)) {
    Ok(r) => Ok(r),
    Err(_) => Err(take_panic().unwrap_or_default()),
  }
}

impl PanicInfo {
  /// `/repo/...` (also a scratch copy `<dir>/repo/...` used by the development tools), or a relative path inside the workspace.
  pub fn in_repo(&self) -> bool { self.file.starts_with("/repo/") || self.file.contains("/repo/pie/") || self.file.contains("/repo/graph/") || self.file.starts_with("pie/") || self.file.starts_with("graph/") }
  pub fn short(&self) -> String {
    let m: String = self.msg.chars().take(160).collect();
    format!("{}:{}: {}", self.file, self.line, m)
  }
}

// ---------------------------------------------------------------------------------------------------------------------
// Outcomes

#[derive(Clone, Debug, Serialize, Deserialize)]
pub struct Violation {
  /// Properties this oracle decides.
  pub props: Vec<String>,
  pub oracle: String,
  pub step: usize,
  pub msg: String,
  /// Signature used for known-finding matching (empty = none).
  pub sig: String,
}

impl Violation {
  pub fn new(props: &[&str], oracle: &str, step: usize, msg: String) -> Self {
    Violation { props: props.iter().map(|s| s.to_string()).collect(), oracle: oracle.to_string(), step, msg, sig: String::new() }
  }
  pub fn with_sig(mut self, sig: &str) -> Self { self.sig = sig.to_string(); self }
  pub fn concerns(&self, prop: &str) -> bool { self.props.iter().any(|p| p == prop) }
}

#[derive(Clone, Debug, Default)]
pub struct Stats(pub BTreeMap<String, u64>);
impl Stats {
  #[inline]
  pub fn add(&mut self, key: &str, n: u64) {
    if n == 0 { return; }
    if let Some(v) = self.0.get_mut(key) { *v += n; } else { self.0.insert(key.to_string(), n); }
  }
  #[inline]
  pub fn hit(&mut self, key: &str) { self.add(key, 1); }
  pub fn merge(&mut self, other: &Stats) { for (k, v) in other.0.iter() { self.add(k, *v); } }
  pub fn get(&self, key: &str) -> u64 { self.0.get(key).copied().unwrap_or(0) }
}

#[derive(Clone, Debug, Default)]
pub struct RunOutcome {
  pub violations: Vec<Violation>,
  pub stats: Stats,
  /// Fingerprint of the scenario (for distinct counting).
  pub fingerprint: u64,
  /// Hash of the abstract trace (for distinct-interleaving counting).
  pub trace_hash: u64,
  /// Non-trivial by the rule of the property being checked.
  pub nontrivial: bool,
  /// Logical steps executed.
  pub steps: u64,
  /// Harness error (generator escaped its class, ...). Never a verdict.
  pub harness_error: Option<String>,
}

// ---------------------------------------------------------------------------------------------------------------------
// Engines

pub trait Engine: Sync {
  type Scn: Clone + Serialize + DeserializeOwned + Send + Sync;
  fn name(&self) -> &'static str;
  /// Generates a scenario for configuration `config` from `rng`.
  fn generate(&self, rng: &mut Rng, config: &str, prop: &str) -> Self::Scn;
  /// Runs a scenario against the real code, evaluating all oracles. `prop` selects the non-triviality rule.
  fn run(&self, scn: &Self::Scn, prop: &str) -> RunOutcome;
  /// Simpler candidate scenarios (for minimisation), most aggressive first.
  fn shrink(&self, scn: &Self::Scn) -> Vec<Self::Scn>;
  /// Components that ran real code / stubs.
  fn components(&self) -> Value;
}

#[derive(Clone, Debug)]
pub struct Config {
  pub name: &'static str,
  pub quick: u64,
  pub thorough: u64,
}

pub struct CheckSpec {
  pub prop: &'static str,
  pub rule: &'static str,
  pub assumptions: Vec<&'static str>,
  pub configs: Vec<Config>,
  /// Counters that a run of this check is expected to drive above zero (reported under zero_probes otherwise).
  pub probes: Vec<&'static str>,
}

#[derive(Clone, Debug, Serialize, Deserialize)]
pub struct ReplayFile<S> {
  pub engine: String,
  pub property: String,
  pub oracle: String,
  pub config: String,
  pub master_seed: u64,
  pub run_index: u64,
  pub run_seed: u64,
  pub violation: Violation,
  pub minimised: bool,
  pub scenario: S,
}

#[derive(Clone, Debug)]
pub struct KnownFinding {
  pub property: String,
  pub sig: String,
  pub replay: String,
  pub text: String,
}

pub fn load_known_findings() -> Vec<KnownFinding> {
  let path = format!("{}/KNOWN_FINDINGS.txt", verif_dir());
  let Ok(text) = std::fs::read_to_string(&path) else { return vec![]; };
  let mut out = vec![];
  for line in text.lines() {
    let line = line.trim();
    let Some(rest) = line.strip_prefix("finding:") else { continue; };
    let mut property = String::new();
    let mut sig = String::new();
    let mut replay = String::new();
    let mut words = vec![];
    for w in rest.split_whitespace() {
      if let Some(v) = w.strip_prefix("property=") { if property.is_empty() { property = v.to_string(); continue; } }
      if let Some(v) = w.strip_prefix("sig=") { if sig.is_empty() { sig = v.to_string(); continue; } }
      if let Some(v) = w.strip_prefix("replay=") { if replay.is_empty() { replay = v.to_string(); continue; } }
      words.push(w);
    }
    out.push(KnownFinding { property, sig, replay, text: words.join(" ") });
  }
  out
}

pub fn workers() -> usize {
  std::env::var("VERIF_WORKERS").ok().and_then(|s| s.parse().ok())
    .unwrap_or_else(|| std::thread::available_parallelism().map(|n| n.get()).unwrap_or(4)).max(1)
}

pub fn master_seed() -> u64 {
  std::env::var("VERIF_SEED").ok().and_then(|s| s.trim().parse::<i128>().ok()).map(|v| v as u64).unwrap_or(1)
}

struct Acc {
  stats: Stats,
  fingerprints: HashSet<u64>,
  nontrivial_fps: HashSet<u64>,
  traces: HashSet<u64>,
  steps: u64,
  runs: u64,
}

/// Runs a scenario, turning a panic that escapes the engine into a violation (repository code) or a harness error.
pub fn run_safely<E: Engine>(engine: &E, scn: &E::Scn, prop: &str) -> RunOutcome {
  match catch(|| engine.run(scn, prop)) {
    Ok(o) => o,
    Err(p) => {
      let mut o = RunOutcome::default();
      if p.in_repo() {
        o.violations.push(Violation::new(&[prop], "uncaught-panic", 0, format!("panic in repository code escaped the harness: {}", p.short())));
      } else {
        o.harness_error = Some(format!("harness panic: {}", p.short()));
      }
      o
    }
  }
}

/// Minimises `scn` while a violation of `prop` with oracle `oracle` persists.
pub fn minimise<E: Engine>(engine: &E, scn: &E::Scn, prop: &str, oracle: &str, sig: &str, budget: usize) -> (E::Scn, usize) {
  let mut best = scn.clone();
  let mut tried = 0usize;
  'outer: loop {
    let cands = engine.shrink(&best);
    for cand in cands {
      if tried >= budget { break 'outer; }
      tried += 1;
      let out = run_safely(engine, &cand, prop);
      if out.harness_error.is_some() { continue; }
      if out.violations.iter().any(|v| v.concerns(prop) && v.oracle == oracle && v.sig == sig) {
        best = cand;
        continue 'outer;
      }
    }
    break;
  }
  (best, tried)
}

pub fn first_violation<'a>(out: &'a RunOutcome, prop: &str) -> Option<&'a Violation> {
  out.violations.iter().find(|v| v.concerns(prop))
}

/// Runs the whole check of one property. Returns the process exit code.
pub fn run_check<E: Engine>(engine: &E, spec: &CheckSpec, tier: &str) -> i32 {
  let t0 = Instant::now();
  let master = master_seed();
  let nworkers = workers();
  let prop = spec.prop;
  let stream = hash_str(prop);
  println!("check property={prop} tier={tier} engine={} VERIF_SEED={master} workers={nworkers}", engine.name());

  let known: Vec<KnownFinding> = load_known_findings().into_iter().filter(|k| k.property == prop).collect();
  let known_sigs: BTreeSet<String> = known.iter().map(|k| k.sig.clone()).collect();

  // 1. Known findings: replay the committed scenarios.
  let mut known_reproduced = 0u64;
  for k in known.iter() {
    let path = format!("{}/{}", verif_dir(), k.replay);
    match std::fs::read_to_string(&path).ok().and_then(|t| serde_json::from_str::<ReplayFile<E::Scn>>(&t).ok()) {
      Some(rf) => {
        let out = run_safely(engine, &rf.scenario, prop);
        if out.violations.iter().any(|v| v.concerns(prop) && v.sig == k.sig) {
          println!("KNOWN-FINDING: property={prop} {} [sig={} replay={}]", k.text, k.sig, k.replay);
          known_reproduced += 1;
        } else {
          println!("NOTE: known finding sig={} no longer reproduces from {} (the defect may have been repaired)", k.sig, k.replay);
        }
      }
      None => {
        // A finding that belongs to another engine's scenario type is replayed by that engine's check.
        println!("NOTE: known finding replay {} is not a scenario of engine {}", k.replay, engine.name());
      }
    }
  }

  // 1b. Regression replays of fixed defects: must pass.
  let mut regression_failed: Option<(String, Violation)> = None;
  let mut regressions = 0u64;
  let reg_dir = format!("{}/regressions", verif_dir());
  if let Ok(rd) = std::fs::read_dir(&reg_dir) {
    let mut files: Vec<_> = rd.filter_map(|e| e.ok()).map(|e| e.path()).filter(|p| p.extension().map(|e| e == "json").unwrap_or(false)).collect();
    files.sort();
    for f in files {
      let Ok(text) = std::fs::read_to_string(&f) else { continue; };
      let Ok(rf) = serde_json::from_str::<ReplayFile<E::Scn>>(&text) else { continue; };
      if rf.engine != engine.name() || rf.property != prop { continue; }
      regressions += 1;
      let out = run_safely(engine, &rf.scenario, prop);
      if let Some(v) = out.violations.iter().find(|v| v.concerns(prop) && !known_sigs.contains(&v.sig)) {
        if regression_failed.is_none() { regression_failed = Some((f.display().to_string(), v.clone())); }
      }
    }
  }

  // 2. Seeded search.
  let mut total = Acc { stats: Stats::default(), fingerprints: HashSet::new(), nontrivial_fps: HashSet::new(), traces: HashSet::new(), steps: 0, runs: 0 };
  let mut samples: Vec<Value> = vec![];
  let mut found: Option<(String, u64, u64, E::Scn, Violation)> = None;
  let mut harness_error: Option<String> = None;
  let mut known_hits: BTreeMap<String, u64> = BTreeMap::new();
  let mut per_config = vec![];

  // Development aid (never set by a registered command): restrict the search to one configuration / another budget.
  let only_config = std::env::var("VERIF_ONLY_CONFIG").ok().filter(|s| !s.is_empty());
  let runs_override: Option<u64> = std::env::var("VERIF_RUNS").ok().and_then(|s| s.parse().ok());
  for (ci, config) in spec.configs.iter().enumerate() {
    let mut n = if tier == "thorough" { config.thorough } else { config.quick };
    if let Some(oc) = &only_config { if oc != config.name { continue; } }
    if let (Some(_), Some(r)) = (&only_config, runs_override) { n = r; }
    if n == 0 { continue; }
    let cstream = stream ^ hash_str(config.name).rotate_left(7) ^ (ci as u64);
    let next = AtomicU64::new(0);
    let stop_at = AtomicU64::new(u64::MAX);
    let results: Mutex<Vec<(Acc, Option<(u64, u64, E::Scn, Violation)>, Option<String>, BTreeMap<String, u64>, Vec<(u64, Value)>)>> = Mutex::new(vec![]);
    let tcfg = Instant::now();
    std::thread::scope(|scope| {
      for _ in 0..nworkers {
        scope.spawn(|| {
          let mut acc = Acc { stats: Stats::default(), fingerprints: HashSet::new(), nontrivial_fps: HashSet::new(), traces: HashSet::new(), steps: 0, runs: 0 };
          let mut best: Option<(u64, u64, E::Scn, Violation)> = None;
          let mut herr: Option<String> = None;
          let mut khits: BTreeMap<String, u64> = BTreeMap::new();
          let mut samp: Vec<(u64, Value)> = vec![];
          loop {
            let i = next.fetch_add(1, Ordering::Relaxed);
            if i >= n || i > stop_at.load(Ordering::Relaxed) { break; }
            let run_seed = mix(master, cstream, i);
            let mut rng = Rng::new(run_seed);
            let scn = engine.generate(&mut rng, config.name, prop);
            let out = run_safely(engine, &scn, prop);
            acc.runs += 1;
            acc.steps += out.steps;
            for v in out.violations.iter() { acc.stats.hit(&format!("oracle_fired:{}:{}", v.oracle, v.props.join("+"))); }
            acc.stats.merge(&out.stats);
            acc.fingerprints.insert(out.fingerprint);
            if out.nontrivial { acc.nontrivial_fps.insert(out.fingerprint); }
            acc.traces.insert(out.trace_hash);
            if i < 3 || (out.nontrivial && samp.len() < 6) {
              samp.push((i, json!({"config": config.name, "run_index": i, "run_seed": run_seed, "nontrivial": out.nontrivial, "scenario": serde_json::to_value(&scn).unwrap_or(Value::Null)})));
            }
            if let Some(e) = out.harness_error {
              if herr.is_none() { herr = Some(format!("config={} run={} seed={}: {}", config.name, i, run_seed, e)); }
              stop_at.fetch_min(i, Ordering::Relaxed);
              continue;
            }
            for v in out.violations.iter().filter(|v| v.concerns(prop)) {
              if !v.sig.is_empty() && known_sigs.contains(&v.sig) {
                *khits.entry(v.sig.clone()).or_insert(0) += 1;
                continue;
              }
              if best.as_ref().map(|b| i < b.0).unwrap_or(true) {
                best = Some((i, run_seed, scn.clone(), v.clone()));
              }
              stop_at.fetch_min(i, Ordering::Relaxed);
              break;
            }
          }
          results.lock().unwrap().push((acc, best, herr, khits, samp));
        });
      }
    });
    let mut cfg_runs = 0;
    let mut all_samples: Vec<(u64, Value)> = vec![];
    for (acc, best, herr, khits, samp) in results.into_inner().unwrap() {
      cfg_runs += acc.runs;
      total.runs += acc.runs;
      total.steps += acc.steps;
      total.stats.merge(&acc.stats);
      total.fingerprints.extend(acc.fingerprints);
      total.nontrivial_fps.extend(acc.nontrivial_fps);
      total.traces.extend(acc.traces);
      for (k, v) in khits { *known_hits.entry(k).or_insert(0) += v; }
      all_samples.extend(samp);
      if let Some(e) = herr { if harness_error.is_none() { harness_error = Some(e); } }
      if let Some((i, seed, scn, v)) = best {
        if found.as_ref().map(|f| i < f.1).unwrap_or(true) { found = Some((config.name.to_string(), i, seed, scn, v)); }
      }
    }
    all_samples.sort_by_key(|(i, _)| *i);
    for (_, s) in all_samples.into_iter().take(3) { if samples.len() < 12 { samples.push(s); } }
    per_config.push(json!({"config": config.name, "runs": cfg_runs, "planned": n, "wall_s": tcfg.elapsed().as_secs_f64()}));
    if found.is_some() || harness_error.is_some() { break; }
  }

  // 3. Report.
  let mut exit = 0;
  let mut violations = 0;
  let mut violation_json = Value::Null;
  if let Some(e) = &harness_error {
    println!("HARNESS-ERROR property={prop} {e}");
    exit = 2;
  }
  if exit == 0 {
    if let Some((file, v)) = &regression_failed {
      println!("regression replay {file} fails again: oracle={} step={} {}", v.oracle, v.step, v.msg);
      println!("VIOLATION property={prop} replay={file}");
      violations += 1;
      exit = 1;
      violation_json = json!({"oracle": v.oracle, "step": v.step, "msg": v.msg, "replay": file, "regression": true});
    }
  }
  if exit == 0 {
    if let Some((config, index, run_seed, scn, v)) = &found {
      let (min_scn, tried) = minimise(engine, scn, prop, &v.oracle, &v.sig, 3000);
      let min_out = run_safely(engine, &min_scn, prop);
      let min_v = min_out.violations.iter().find(|x| x.concerns(prop) && x.oracle == v.oracle && x.sig == v.sig).cloned().unwrap_or_else(|| v.clone());
      let dir = format!("{}/replays", verif_dir());
      let _ = std::fs::create_dir_all(&dir);
      let path = format!("{dir}/{prop}-{master}-{config}-{index}.json");
      let rf = ReplayFile { engine: engine.name().to_string(), property: prop.to_string(), oracle: v.oracle.clone(), config: config.clone(), master_seed: master, run_index: *index, run_seed: *run_seed, violation: min_v.clone(), minimised: true, scenario: min_scn };
      std::fs::write(&path, serde_json::to_string_pretty(&rf).unwrap()).expect("cannot write replay file");
      let orig = format!("{dir}/{prop}-{master}-{config}-{index}.orig.json");
      let rf0 = ReplayFile { engine: engine.name().to_string(), property: prop.to_string(), oracle: v.oracle.clone(), config: config.clone(), master_seed: master, run_index: *index, run_seed: *run_seed, violation: v.clone(), minimised: false, scenario: scn.clone() };
      let _ = std::fs::write(&orig, serde_json::to_string_pretty(&rf0).unwrap());
      println!("violation: config={config} run={index} run_seed={run_seed} oracle={} step={} (minimised with {tried} candidate runs)", min_v.oracle, min_v.step);
      println!("  {}", min_v.msg);
      println!("VIOLATION property={prop} replay={path}");
      violations += 1;
      exit = 1;
      violation_json = json!({"oracle": min_v.oracle, "step": min_v.step, "msg": min_v.msg, "replay": path, "config": config, "run_index": index, "run_seed": run_seed});
    }
  }

  for (k, n) in total.stats.0.iter() {
    if let Some(rest) = k.strip_prefix("oracle_fired:") {
      if !rest.split(':').nth(1).map(|p| p.split('+').any(|x| x == prop)).unwrap_or(false) {
        println!("NOTE: oracle {rest} fired in {n} runs; it is decided by the check of that property, not by this one");
      }
    }
  }
  let wall = t0.elapsed().as_secs_f64();
  let zero_probes: Vec<String> = spec.probes.iter().filter(|p| total.stats.get(p) == 0).map(|p| p.to_string()).collect();
  if !zero_probes.is_empty() { println!("NOTE: reach probes that stayed at zero in this run: {:?}", zero_probes); }
  let evidence = json!({
    "property_id": prop,
    "tier": if tier == "thorough" { "thorough" } else { "quick" },
    "seed": master as i64,
    "level": "exploration",
    "coverage": {
      "evaluations": total.runs,
      "distinct_nontrivial": total.nontrivial_fps.len(),
      "rule": spec.rule,
      "samples": samples,
      "distinct_scenarios": total.fingerprints.len(),
      "distinct_abstract_traces": total.traces.len(),
      "logical_steps": total.steps,
      "runs_per_hour": if wall > 0.0 { (total.runs as f64 / wall * 3600.0) as u64 } else { 0 },
      "simulated_time": "no wall-clock in this system: logical steps are reported instead (fs engine: explicit mtimes)",
      "configurations": per_config,
      "counters": total.stats.0,
      "zero_probes": zero_probes,
      "known_finding_replays_reproduced": known_reproduced,
      "known_finding_hits_in_search": known_hits,
      "regression_replays_passed": if regression_failed.is_none() { regressions } else { 0 },
      "components": engine.components(),
      "workers": nworkers,
      "violation": violation_json,
      "exhaustive": false,
    },
    "assumptions": spec.assumptions,
    "wall_s": wall,
    "violations": violations,
  });
  let edir = format!("{}/evidence", verif_dir());
  let _ = std::fs::create_dir_all(&edir);
  if exit != 2 && only_config.is_none() {
    std::fs::write(format!("{edir}/{prop}.json"), serde_json::to_string_pretty(&evidence).unwrap()).expect("cannot write evidence");
  }
  if let Ok(pat) = std::env::var("VERIF_PRINT_COUNTERS") { for (k, v) in total.stats.0.iter() { if k.contains(&pat) { println!("counter {k} = {v}"); } } }
  println!("summary property={prop} tier={tier} runs={} distinct_scenarios={} distinct_nontrivial={} traces={} steps={} wall_s={:.1} exit={exit}",
    total.runs, total.fingerprints.len(), total.nontrivial_fps.len(), total.traces.len(), total.steps, wall);
  exit
}

/// Replays a file: exit 1 with a VIOLATION line if the recorded oracle fires again, 2 otherwise.
pub fn replay<E: Engine>(engine: &E, text: &str, path: &str) -> i32 {
  let rf: ReplayFile<E::Scn> = match serde_json::from_str(text) {
    Ok(r) => r,
    Err(e) => { println!("HARNESS-ERROR cannot parse replay file {path}: {e}"); return 2; }
  };
  let out = run_safely(engine, &rf.scenario, &rf.property);
  if let Some(e) = out.harness_error { println!("HARNESS-ERROR replay {path}: {e}"); return 2; }
  match out.violations.iter().find(|v| v.concerns(&rf.property) && v.oracle == rf.oracle && v.sig == rf.violation.sig) {
    Some(v) => {
      println!("replayed: oracle={} step={} {}", v.oracle, v.step, v.msg);
      if v.step != rf.violation.step { println!("NOTE: step differs from the recorded one ({} vs {})", v.step, rf.violation.step); }
      println!("VIOLATION property={} replay={}", rf.property, path);
      1
    }
    None => {
      println!("replay of {path}: recorded oracle {} (signature {:?}) did not fire (oracles that fired, with signature: {:?})", rf.oracle, rf.violation.sig, out.violations.iter().map(|v| (v.oracle.clone(), v.sig.clone())).collect::<Vec<_>>());
      2
    }
  }
}

pub fn fnv(h: &mut u64, x: u64) {
  *h ^= x;
  *h = h.wrapping_mul(0x1000_0000_01b3).rotate_left(5);
}
