//! E3 fs-sim: pie's real file resource (`PathBuf`) and its three checkers on the real filesystem, in a private
//! directory, with every modification time set explicitly (no outcome depends on the clock). Decides C13.
use std::collections::{BTreeMap, BTreeSet};
use std::fs::{self, File};
use std::io::{Read, Write};
use std::path::PathBuf;
use std::time::{Duration, SystemTime, UNIX_EPOCH};

use pie::resource::file::hash_checker::HashChecker;
use pie::resource::file::{ExistsChecker, ModifiedChecker};
use pie::{Pie, Resource, ResourceChecker};
use serde::{Deserialize, Serialize};
use serde_json::{json, Value};

use crate::common::{catch, fnv, Engine, RunOutcome, Stats, Violation};
use crate::rng::Rng;

pub const SIZES: [u32; 12] = [0, 1, 3, 5, 8191, 8192, 8193, 8200, 9000, 16384, 20000, 65537];
/// Entry names (bytes: Linux file names need not be UTF-8). Some concatenate equally, some differ only in bytes that are
/// not valid UTF-8, one is the replacement character that a lossy conversion would produce.
pub const NAMES: [&[u8]; 14] = [b"a", b"b", b"c", b"ab", b"bc", b"abc", b"a.b", b"ca", b"x\xE9", b"x\xE8", b"\xFF", b"\xFE", "x\u{FFFD}".as_bytes(), "x\u{e9}".as_bytes()];
fn name_os(n: usize) -> &'static std::ffi::OsStr { use std::os::unix::ffi::OsStrExt; std::ffi::OsStr::from_bytes(NAMES[n]) }
/// Explicit modification times (seconds since the epoch): far past, past, base, base + 1 s, next day, far future.
pub const MTIMES: [u64; 6] = [946_684_800, 1_577_750_400, 1_577_836_800, 1_577_836_801, 1_577_923_200, 4_102_444_800];

#[derive(Clone, Debug, PartialEq, Eq, Serialize, Deserialize)]
pub enum FsState {
  Absent,
  /// kind: 0 = position-dependent pattern, 1 = uniform byte, 2 = three bytes followed by zeros.
  File { size: usize, kind: u8, seed: u8 },
  Dir { names: Vec<usize> },
}

#[derive(Clone, Debug, PartialEq, Eq, Serialize, Deserialize)]
pub enum FsOp {
  Set { state: FsState, mtime: usize },
  SetMtime { mtime: usize },
  DirAdd { name: usize, mtime: usize },
  DirRemove { name: usize, mtime: usize },
  /// Stamp with all three checkers through the path and reader routes and remember the stamps.
  Stamp { slot: u8 },
  /// Check the remembered stamps against the current state.
  Check { slot: u8 },
  /// Open for writing, write, set the mtime, optionally inject a fault, stamp through the writer route.
  /// fault: 0 none, 1 delete before stamping, 2 rewrite through another handle before stamping.
  WriteStamp { size: usize, kind: u8, seed: u8, mtime: usize, fault: u8 },
}

#[derive(Clone, Debug, Serialize, Deserialize)]
pub struct FsScn { pub ops: Vec<FsOp> }

pub struct FsEngine;

pub fn content(size: usize, kind: u8, seed: u8) -> Vec<u8> {
  let n = SIZES[size % SIZES.len()] as usize;
  match kind % 3 {
    0 => (0..n).map(|i| ((seed as usize * 7 + i * 13 + i / 251) % 251) as u8).collect(),
    1 => vec![b'a' + seed % 3; n],
    _ => { let mut v = vec![0u8; n]; for (i, b) in [b'a' + seed % 3, b'b', b'c'].iter().enumerate() { if i < n { v[i] = *b; } } v }
  }
}

fn mtime(i: usize) -> SystemTime { UNIX_EPOCH + Duration::from_secs(MTIMES[i % MTIMES.len()]) }

#[derive(Clone, Debug, PartialEq)]
enum MState { Absent, File(Vec<u8>), Dir(BTreeSet<usize>, u64) }

#[derive(Clone, Debug)]
struct Slot { state: MState, mtime: Option<SystemTime>, exists: bool, modified: Option<SystemTime>, hash: Option<[u8; 32]>, dir_generation: u64 }

struct Dir { root: PathBuf }
impl Drop for Dir { fn drop(&mut self) { let _ = fs::remove_dir_all(&self.root); } }

fn private_dir() -> Dir {
  use std::sync::atomic::{AtomicU64, Ordering};
  static N: AtomicU64 = AtomicU64::new(0);
  let base = if std::path::Path::new("/dev/shm").is_dir() { PathBuf::from("/dev/shm") } else { std::env::temp_dir() };
  let root = base.join(format!("verif-e3-{}-{}", std::process::id(), N.fetch_add(1, Ordering::Relaxed)));
  let _ = fs::remove_dir_all(&root);
  fs::create_dir_all(&root).expect("cannot create private directory");
  Dir { root }
}

fn set_mtime(p: &PathBuf, t: SystemTime) {
  let f = if p.is_dir() { File::open(p) } else { File::options().write(true).open(p) };
  if let Ok(f) = f { let _ = f.set_modified(t); }
}

fn remove(p: &PathBuf) {
  if p.is_dir() { let _ = fs::remove_dir_all(p); } else if p.exists() { let _ = fs::remove_file(p); }
}

impl Engine for FsEngine {
  type Scn = FsScn;
  fn name(&self) -> &'static str { "e3-fs" }

  fn generate(&self, rng: &mut Rng, _config: &str, _prop: &str) -> FsScn {
    let n = rng.range(3, 14) as usize;
    let mut ops = vec![];
    let dir_bias = rng.range(10, 50);
    let gen_state = |rng: &mut Rng| -> FsState {
      let k = rng.below(100);
      if k < 15 { FsState::Absent }
      else if k < 15 + dir_bias { let cnt = rng.below(4); let mut names = vec![]; for _ in 0..cnt { let x = rng.below(NAMES.len() as u64) as usize; if !names.contains(&x) { names.push(x); } } FsState::Dir { names } }
      else { FsState::File { size: rng.below(SIZES.len() as u64) as usize, kind: rng.below(3) as u8, seed: rng.below(3) as u8 } }
    };
    ops.push(FsOp::Set { state: gen_state(rng), mtime: rng.below(MTIMES.len() as u64) as usize });
    if rng.chance(20) {
      // Directed: two listings that a careless encoding of the entry names cannot tell apart (equal concatenations,
      // names differing only in bytes that are not valid UTF-8), stamped and checked at one modification time.
      const PAIRS: [(&[usize], &[usize]); 8] = [(&[0, 4], &[3, 2]), (&[5], &[0, 4]), (&[8], &[9]), (&[10], &[11]), (&[8], &[12]), (&[13], &[8]), (&[10, 8], &[11, 9]), (&[6], &[0, 1])];
      let (a, b) = *rng.pick(&PAIRS);
      let (a, b) = if rng.chance(50) { (a, b) } else { (b, a) };
      let mt = rng.below(MTIMES.len() as u64) as usize;
      let slot = rng.below(3) as u8;
      ops.push(FsOp::Set { state: FsState::Dir { names: a.to_vec() }, mtime: mt });
      ops.push(FsOp::Stamp { slot });
      if rng.chance(30) { ops.push(FsOp::Check { slot }); }
      ops.push(FsOp::Set { state: FsState::Dir { names: b.to_vec() }, mtime: mt });
      ops.push(FsOp::Check { slot });
    }
    for _ in 1..n {
      let mt = rng.below(MTIMES.len() as u64) as usize;
      ops.push(match rng.below(13) {
        0..=2 => FsOp::Set { state: gen_state(rng), mtime: mt },
        3 => FsOp::SetMtime { mtime: mt },
        4 => FsOp::DirAdd { name: rng.below(NAMES.len() as u64) as usize, mtime: mt },
        5 => FsOp::DirRemove { name: rng.below(NAMES.len() as u64) as usize, mtime: mt },
        6..=8 => FsOp::Stamp { slot: rng.below(3) as u8 },
        9..=10 => FsOp::Check { slot: rng.below(3) as u8 },
        _ => FsOp::WriteStamp { size: rng.below(SIZES.len() as u64) as usize, kind: rng.below(3) as u8, seed: rng.below(3) as u8, mtime: mt, fault: if rng.chance(30) { rng.range(1, 2) as u8 } else { 0 } },
      });
    }
    FsScn { ops }
  }

  fn run(&self, scn: &FsScn, _prop: &str) -> RunOutcome {
    let mut out = RunOutcome::default();
    let mut stats = Stats::default();
    let dir = private_dir();
    let p: PathBuf = dir.root.join("target");
    let mut pie: Pie<()> = Pie::default();
    let mut state = MState::Absent;
    let mut cur_mtime: Option<SystemTime> = None;
    let mut dir_generation = 0u64; // bumps whenever a directory is (re)created or its entries change
    let mut slots: BTreeMap<u8, Slot> = BTreeMap::new();
    let mut vs: Vec<Violation> = vec![];
    let mut fp = 0xcbf2_9ce4_8422_2325u64;
    let mut pairs = 0u64;
    let v13 = &["C13"];
    for (step, op) in scn.ops.iter().enumerate() {
      for b in format!("{:?}", op).bytes() { fnv(&mut fp, b as u64); }
      let r = catch(|| -> Option<(String, String)> {
        let rs = pie.resource_state_mut::<PathBuf>();
        match op {
          FsOp::Set { state: s, mtime: mt } => {
            remove(&p);
            match s {
              FsState::Absent => { state = MState::Absent; cur_mtime = None; }
              FsState::File { size, kind, seed } => {
                let c = content(*size, *kind, *seed);
                fs::write(&p, &c).unwrap();
                set_mtime(&p, mtime(*mt));
                state = MState::File(c);
                cur_mtime = Some(mtime(*mt));
              }
              FsState::Dir { names } => {
                fs::create_dir(&p).unwrap();
                let mut set = BTreeSet::new();
                for n in names { let n = *n % NAMES.len(); if set.insert(n) { fs::write(p.join(name_os(n)), b"x").unwrap(); } }
                set_mtime(&p, mtime(*mt));
                dir_generation += 1;
                state = MState::Dir(set, dir_generation);
                cur_mtime = Some(mtime(*mt));
              }
            }
            stats.hit("op_set");
            None
          }
          FsOp::SetMtime { mtime: mt } => {
            if state != MState::Absent { set_mtime(&p, mtime(*mt)); cur_mtime = Some(mtime(*mt)); stats.hit("op_set_mtime"); }
            None
          }
          FsOp::DirAdd { name, mtime: mt } => {
            if let MState::Dir(set, _) = &mut state {
              let n = *name % NAMES.len();
              if set.insert(n) { fs::write(p.join(name_os(n)), b"x").unwrap(); dir_generation += 1; }
              let s2 = set.clone();
              state = MState::Dir(s2, dir_generation);
              set_mtime(&p, mtime(*mt));
              cur_mtime = Some(mtime(*mt));
              stats.hit("op_dir_add");
            }
            None
          }
          FsOp::DirRemove { name, mtime: mt } => {
            if let MState::Dir(set, _) = &mut state {
              let n = *name % NAMES.len();
              if set.remove(&n) { fs::remove_file(p.join(name_os(n))).unwrap(); dir_generation += 1; }
              let s2 = set.clone();
              state = MState::Dir(s2, dir_generation);
              set_mtime(&p, mtime(*mt));
              cur_mtime = Some(mtime(*mt));
              stats.hit("op_dir_remove");
            }
            None
          }
          FsOp::Stamp { slot } => {
            // Route 1: from the path. Route 2: from a fresh reader (which must stay fresh).
            let e1 = ExistsChecker.stamp(&p, rs).map_err(|e| e.to_string());
            let m1 = ModifiedChecker.stamp(&p, rs).map_err(|e| e.to_string());
            let h1 = HashChecker.stamp(&p, rs).map_err(|e| e.to_string());
            let (Ok(e1), Ok(m1), Ok(h1)) = (e1.clone(), m1.clone(), h1.clone()) else { return Some(("stamp-error".into(), format!("stamping {:?} from the path failed: {:?} {:?} {:?}", state_name(&state), e1, m1, h1.map(|_| ())))); };
            for which in 0..3 {
              let mut rd = match p.read(rs) { Ok(r) => r, Err(e) => return Some(("read-error".into(), format!("opening {:?} for reading failed: {e}", state_name(&state)))) };
              let kind_ok = match &state { MState::Absent => !rd.exists(), MState::File(_) => rd.is_file(), MState::Dir(..) => rd.is_directory() };
              if !kind_ok { return Some(("reader-kind".into(), format!("reader of {:?} reports exists={} file={} dir={}", state_name(&state), rd.exists(), rd.is_file(), rd.is_directory()))); }
              let agree = match which {
                0 => ExistsChecker.stamp_reader(&p, &mut rd).map(|s| s == e1).map_err(|e| e.to_string()),
                1 => ModifiedChecker.stamp_reader(&p, &mut rd).map(|s| s == m1).map_err(|e| e.to_string()),
                _ => HashChecker.stamp_reader(&p, &mut rd).map(|s| s == h1).map_err(|e| e.to_string()),
              };
              match agree {
                Ok(true) => {}
                Ok(false) => return Some(("stamp-routes".into(), format!("checker {} stamps {:?} differently from the path and from a fresh reader", ["exists", "modified", "hash"][which], state_name(&state)))),
                Err(e) => return Some(("stamp-error".into(), format!("stamping {:?} from a reader failed: {e}", state_name(&state)))),
              }
              // The task must read the full content from the very reader that was stamped.
              if let MState::File(c) = &state {
                let mut buf = vec![];
                let Some(f) = rd.as_file() else { return Some(("reader-kind".into(), "reader of a file is not a file".into())); };
                f.read_to_end(&mut buf).unwrap();
                if &buf != c { return Some(("reader-not-fresh".into(), format!("after stamping with checker {}, the reader yields {} of {} bytes (first difference at {:?})", ["exists", "modified", "hash"][which], buf.len(), c.len(), buf.iter().zip(c.iter()).position(|(a, b)| a != b)))); }
              }
            }
            // The stamps say what they document.
            if e1 != (state != MState::Absent) { return Some(("exists-stamp".into(), format!("exists stamp of {:?} is {e1}", state_name(&state)))); }
            if m1 != cur_mtime { return Some(("modified-stamp".into(), format!("modified stamp of {:?} is {:?}, explicit mtime {:?}", state_name(&state), m1, cur_mtime))); }
            if h1.is_some() != (state != MState::Absent) { return Some(("hash-stamp".into(), format!("hash stamp of {:?} is_some = {}", state_name(&state), h1.is_some()))); }
            slots.insert(*slot, Slot { state: state.clone(), mtime: cur_mtime, exists: e1, modified: m1, hash: h1, dir_generation });
            stats.hit("op_stamp");
            None
          }
          FsOp::Check { slot } => {
            let Some(s) = slots.get(slot).cloned() else { return None; };
            pairs += 1;
            let ec = ExistsChecker.check(&p, rs, &s.exists).map(|i| i.is_some()).map_err(|e| e.to_string());
            let mc = ModifiedChecker.check(&p, rs, &s.modified).map(|i| i.is_some()).map_err(|e| e.to_string());
            let hc = HashChecker.check(&p, rs, &s.hash).map(|i| i.is_some()).map_err(|e| e.to_string());
            let (Ok(ec), Ok(mc), Ok(hc)) = (ec.clone(), mc.clone(), hc.clone()) else { return Some(("check-error".into(), format!("checking {:?} failed: {:?} {:?} {:?}", state_name(&state), ec, mc, hc))); };
            let exists_differs = (s.state == MState::Absent) != (state == MState::Absent);
            if ec != exists_differs { return Some(("exists-check".into(), format!("exists checker says inconsistent={ec}: stamped {:?}, now {:?}", state_name(&s.state), state_name(&state)))); }
            let mtime_differs = s.mtime != cur_mtime;
            if mc != mtime_differs { return Some(("modified-check".into(), format!("modified checker says inconsistent={mc}: stamped {:?} mtime {:?}, now {:?} mtime {:?}", state_name(&s.state), s.mtime, state_name(&state), cur_mtime))); }
            // Hash checker: only what the property claims.
            let expect: Option<bool> = match (&s.state, &state) {
              (MState::Absent, MState::Absent) => Some(false),
              (MState::Absent, _) | (_, MState::Absent) => Some(true),
              (MState::File(a), MState::File(b)) => Some(a != b),
              (MState::Dir(a, ga), MState::Dir(b, gb)) => if a != b { Some(true) } else if ga == gb { Some(false) } else { None },
              _ => None,
            };
            if let Some(e) = expect { if hc != e { return Some(("hash-check".into(), format!("hash checker says inconsistent={hc}: stamped {:?}, now {:?}", state_name(&s.state), state_name(&state)))); } }
            let _ = s.dir_generation;
            stats.hit("op_check");
            None
          }
          FsOp::WriteStamp { size, kind, seed, mtime: mt, fault } => {
            let c = content(*size, *kind, *seed);
            let was_dir = matches!(state, MState::Dir(..));
            for which in 0..3 {
              let w = p.write(rs);
              if was_dir {
                if w.is_ok() { return Some(("write-on-directory".into(), "opening a directory for writing succeeded".into())); }
                if !p.is_dir() { return Some(("write-on-directory".into(), "refused write removed the directory".into())); }
                continue;
              }
              let mut f = match w { Ok(f) => f, Err(e) => return Some(("write-error".into(), format!("opening {:?} for writing failed: {e}", state_name(&state)))) };
              // Opening creates or truncates.
              let len = fs::metadata(&p).map(|m| m.len()).unwrap_or(u64::MAX);
              if len != 0 { return Some(("write-truncate".into(), format!("after opening for writing the file has {len} bytes"))); }
              f.write_all(&c).unwrap();
              f.flush().unwrap();
              f.set_modified(mtime(*mt)).unwrap();
              let mut now_state = MState::File(c.clone());
              let mut now_mtime = Some(mtime(*mt));
              match fault {
                1 => { fs::remove_file(&p).unwrap(); now_state = MState::Absent; now_mtime = None; }
                2 => { let c2 = content(*size + 1, *kind, seed.wrapping_add(1)); fs::write(&p, &c2).unwrap(); set_mtime(&p, mtime(*mt + 1)); now_state = MState::File(c2); now_mtime = Some(mtime(*mt + 1)); }
                _ => {}
              }
              // Writer route vs path route at the same instant.
              let agree = match which {
                0 => { let a = ExistsChecker.stamp_writer(&p, f).map_err(|e| e.to_string()); let b = ExistsChecker.stamp(&p, rs).map_err(|e| e.to_string()); (a == b, format!("{:?} vs {:?}", a, b)) }
                1 => { let a = ModifiedChecker.stamp_writer(&p, f).map_err(|e| e.to_string()); let b = ModifiedChecker.stamp(&p, rs).map_err(|e| e.to_string()); (a == b && a == Ok(now_mtime), format!("{:?} vs {:?} (explicit {:?})", a, b, now_mtime)) }
                _ => { let a = HashChecker.stamp_writer(&p, f).map_err(|e| e.to_string()); let b = HashChecker.stamp(&p, rs).map_err(|e| e.to_string()); (a == b, format!("writer {:?} vs path {:?}", a.map(|h| h.map(|x| x[0])), b.map(|h| h.map(|x| x[0])))) }
              };
              // With fault 2 the writer's handle still refers to the same file (rewritten in place), so routes must agree too.
              if !agree.0 { return Some(("stamp-routes-writer".into(), format!("checker {} stamps differently from a just-used writer and from the path (fault {fault}): {}", ["exists", "modified", "hash"][which], agree.1))); }
              state = now_state;
              cur_mtime = now_mtime;
            }
            stats.hit(match fault { 1 => "fault_delete_before_stamp_writer", 2 => "fault_modify_before_stamp_writer", _ => "op_write_stamp" });
            None
          }
        }
      });
      match r {
        Ok(None) => {}
        Ok(Some((oracle, msg))) => { vs.push(Violation::new(v13, &oracle, step, msg)); break; }
        Err(pi) => { vs.push(Violation::new(v13, "fs-panic", step, format!("operation {:?} panicked: {}", op, pi.short()))); break; }
      }
      out.steps += 1;
    }
    out.nontrivial = pairs >= 1 && scn.ops.iter().filter(|o| matches!(o, FsOp::Set { .. } | FsOp::WriteStamp { .. } | FsOp::DirAdd { .. } | FsOp::DirRemove { .. })).count() >= 2;
    out.fingerprint = fp;
    out.trace_hash = fp;
    stats.add("stamp_check_pairs", pairs);
    out.stats = stats;
    out.violations = vs;
    out
  }

  fn shrink(&self, scn: &FsScn) -> Vec<FsScn> {
    let n = scn.ops.len();
    let mut c = vec![];
    for i in (0..n).rev() { let mut ops = scn.ops.clone(); ops.remove(i); c.push(FsScn { ops }); }
    // Simplify states.
    for i in 0..n {
      if let FsOp::Set { state: FsState::File { size, kind, seed }, mtime } = &scn.ops[i] {
        if *size > 0 { let mut ops = scn.ops.clone(); ops[i] = FsOp::Set { state: FsState::File { size: size - 1, kind: *kind, seed: *seed }, mtime: *mtime }; c.push(FsScn { ops }); }
      }
      if let FsOp::Set { state: FsState::Dir { names }, mtime } = &scn.ops[i] {
        for j in 0..names.len() { let mut nn = names.clone(); nn.remove(j); let mut ops = scn.ops.clone(); ops[i] = FsOp::Set { state: FsState::Dir { names: nn }, mtime: *mtime }; c.push(FsScn { ops }); }
      }
    }
    c
  }

  fn components(&self) -> Value {
    json!({
      "real": ["pie::resource::file (Resource for PathBuf, OpenRead, ExistsChecker, ModifiedChecker)", "pie::resource::file::hash_checker::HashChecker", "the kernel filesystem under a private directory (/dev/shm or the temp dir)"],
      "stub": ["the clock: every modification time is set explicitly (File::set_modified) from a fixed table incl. far past and far future"],
      "uncontrolled": ["kernel directory iteration order (only 'untouched => consistent' and 'different name set => inconsistent' are claimed for directories)"],
      "reference_model": "path state machine {absent, file(content), directory(name set)} x explicit mtime",
    })
  }
}

fn state_name(s: &MState) -> String {
  match s {
    MState::Absent => "absent".into(),
    MState::File(c) => format!("file[{} bytes, first {:?}]", c.len(), &c[..c.len().min(4)]),
    MState::Dir(n, _) => format!("dir{:?}", n.iter().map(|i| NAMES[*i].escape_ascii().to_string()).collect::<Vec<_>>()),
  }
}
