#!/usr/bin/env python3
"""Development aid (never used by a registered command): run a check repeatedly and register every *stale-edge* spurious
abort signature it reports as a known finding with its minimised replay. Anything else stops the loop for triage."""
import subprocess, sys, re, json, shutil, os
prop = sys.argv[1]; tier = sys.argv[2] if len(sys.argv) > 2 else "quick"
TEXT = {
 "hidden:stale-reader": "a task that read a resource in an earlier state, and would not read it in the current state, is still recorded as its reader; when another task writes that resource before the stale reader has been re-validated in the session, the build aborts with 'Hidden dependency' although a from-scratch build of all known tasks has none",
 "hidden:stale-writer": "a task that wrote a resource in an earlier state, and would not write it in the current state, is still recorded as its writer; when another task reads that resource before the stale writer has been re-validated in the session, the build aborts with 'Hidden dependency' although a from-scratch build of all known tasks has none",
 "hidden:stale-path": "a reader still reaches the writer in the current state, but the recorded require path between them runs through a task whose record is stale or truncated and was not yet re-validated in the session; the build aborts with 'Hidden dependency' although a from-scratch build of all known tasks has none",
 "overlap:stale-writer": "a task that wrote a resource in an earlier state, and would not write it in the current state, is still recorded as its writer; when the task that writes it now executes first, the build aborts with 'Overlapping write' although a from-scratch build of all known tasks has none",
 "cycle:stale-require": "a require edge recorded in an earlier state, which its owner would no longer create in the current state, closes a cycle with a require made now before the owner has been re-validated in the session; the build aborts with 'Cyclic task dependency' although a from-scratch build of all known tasks has none",
}
for _ in range(40):
    out = subprocess.run(["./sim/target/release/sim", "check", prop, tier], capture_output=True, text=True, cwd="/verif").stdout
    m = re.search(r"VIOLATION property=(\S+) replay=(\S+)", out)
    if not m:
        print("clean"); print(out.strip().splitlines()[-1]); break
    rf = json.load(open(m.group(2)))
    sig = rf["violation"]["sig"]
    if rf["oracle"] != "spurious-abort" or not sig:
        print("STOP: not a stale-edge signature:", rf["oracle"], rf["violation"]["msg"][:300]); print(m.group(2)); break
    base, _, suffix = sig.partition("+")
    name = f"findings/{prop}-{sig.replace(':','-').replace('+','-after-')}.json"
    shutil.copy(m.group(2), "/verif/" + name)
    text = TEXT.get(base, base) + (" (here after an earlier aborted build left partial records behind)" if suffix else "")
    open("/verif/KNOWN_FINDINGS.txt", "a").write(f"finding: property={prop} sig={sig} replay={name} {text}\n")
    print("registered", sig, name)
