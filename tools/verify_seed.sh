#!/bin/sh
# tools/verify_seed.sh <worktree> <SEEDdir-name> <seed-id> <PROP>
# Confirms in the scratch worktree that the patch compiles, passes the baseline suite, and that the demo fails with /
# passes without the patch; then stores it under /verif/seeded/<seed-id>/.
wt="$1"; sd="$2"; id="$3"; prop="$4"
cd "$wt" || exit 2
git checkout -q -- . ; git clean -fdq pie graph >/dev/null 2>&1
demo=$(ls "$sd"/demo/*.rs 2>/dev/null | head -1)
[ -f "$sd/patch.diff" ] || { echo "no patch"; exit 2; }
crate=pie; testdir=pie/tests
if grep -q "pie_graph" "$demo" 2>/dev/null && ! grep -q "use pie::" "$demo"; then crate=pie_graph; testdir=graph/tests; fi
mkdir -p $testdir
feat=""
if [ "$crate" = pie ] && grep -q "HashChecker\|hash_checker" "$demo" 2>/dev/null; then feat="--features file_hash_checker"; fi
run_demo() { cp "$demo" $testdir/seed_demo.rs; cargo test --offline -p $crate $feat --test seed_demo 2>&1 | grep -E "^test result|error(\[|:)" | grep -v "^ *[0-9]*:" | head -3; rm -f $testdir/seed_demo.rs; }
echo "== without patch: demo"; r0=$(run_demo); echo "$r0"
git apply "$sd/patch.diff" || { echo "PATCH DOES NOT APPLY"; exit 2; }
echo "== with patch: baseline"; b=$(cargo test --workspace --no-fail-fast --offline 2>&1 | grep -E "^test result" | awk '{p+=$4; f+=$6} END {print p" passed "f" failed"}'); echo "$b"
echo "== with patch: demo"; r1=$(run_demo); echo "$r1"
git checkout -q -- . ; git clean -fdq pie graph >/dev/null 2>&1
mkdir -p /verif/seeded/$id && cp "$sd/patch.diff" /verif/seeded/$id/patch.diff && cp -r "$sd/demo" /verif/seeded/$id/ && cp "$sd/README.md" /verif/seeded/$id/README.md 2>/dev/null
python3 - "$id" "$prop" "$r0" "$b" "$r1" <<'PY'
import json,sys
id,prop,r0,b,r1=sys.argv[1:6]
meta={"seed_id":id,"property":prop,"source":"independent sub-agent given only the property text and a scratch worktree","demo_without_patch":r0,"baseline_with_patch":b,"demo_with_patch":r1,"needs":"see README.md","checks_run":[],"detected_by":[]}
json.dump(meta,open(f"/verif/seeded/{id}/meta.json","w"),indent=1)
PY
echo "stored /verif/seeded/$id"
