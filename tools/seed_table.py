#!/usr/bin/env python3
"""Prints the markdown table of seeded changes (seed | what it does | detected by) for DESIGN.md section 11.6."""
import json, os, re
root = "/verif/seeded"
def key(s): m = re.match(r"C(\d+)-s(\d+)", s); return (int(m.group(1)), int(m.group(2)))
print("| seed | what the change does (from its README) | detected by (check:oracle) |")
print("|---|---|---|")
for sid in sorted(os.listdir(root), key=key):
    d = f"{root}/{sid}"
    meta = json.load(open(f"{d}/meta.json"))
    what = ""
    try:
        for line in open(f"{d}/README.md"):
            if line.startswith("#"):
                what = line.lstrip("# ").strip()
                what = re.sub(r"^SEED\s*\d+\s*[-—:–]*\s*", "", what, flags=re.I)
                break
    except FileNotFoundError:
        pass
    what = what.replace("|", "/")[:170]
    det = ", ".join(meta.get("detected_by") or []) or "**missed**"
    print(f"| {sid} | {what} | {det} |")
