#!/bin/sh
# tools/mutant.sh <patch.diff> <PROP> [<PROP>...]   apply a patch to /repo, run the quick checks, always revert.
patch=$(realpath "$1"); shift
cd /verif || exit 2
if ! git -C /repo diff --quiet; then echo "/repo has uncommitted changes; refusing"; exit 2; fi
trap 'git -C /repo checkout -- . ; git -C /repo clean -fdq -- pie graph >/dev/null 2>&1; (cd /verif/sim && cargo build --release --offline >/dev/null 2>&1)' EXIT INT TERM
git -C /repo apply "$patch" || { echo "patch does not apply"; exit 2; }
for p in "$@"; do
  out=$(VERIF_TIER=${VERIF_TIER:-quick} ./check "$p" ${VERIF_TIER:-quick} 2>&1)
  code=$?
  echo "$(basename "$patch") $p exit=$code $(echo "$out" | grep -E '^violation|HARNESS' | head -1 | cut -c1-150)"
  echo "$out" | grep -E "^  " | head -1 | cut -c1-260
done
