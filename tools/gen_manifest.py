#!/usr/bin/env python3
"""Generates /verif/MANIFEST.json from the table below (keeps it valid against the schema)."""
import json, subprocess, os

ROOT = os.path.dirname(os.path.dirname(os.path.abspath(__file__)))

def hook_commits():
    try:
        out = subprocess.check_output(["git", "-C", "/repo", "log", "--format=%H %s"], text=True)
        return [l.split()[0] for l in out.splitlines() if l.split(" ", 1)[1].startswith("verif hook:")]
    except Exception:
        return []

E = {
  "e1": "e1-build", "e2": "e2-dag", "e3": "e3-fs", "e4": "e4-state",
}

# id -> (engine, technique, level text, level note, design ref)
E1_NOTE = "Trusts the from-scratch reference interpreter (Clean), the instrumented checkers and the task-side / checker-side logs; bounded to <= 8 tasks, <= 9 resources, <= 12 history steps per scenario (configurations *-xl: <= 14 tasks, <= 11 resources, <= 16 steps; *-marathon: <= 6 tasks, 150..300 steps); task programs are interpreted scripts over simulated resource families."
CHECKS = {
  "C01": ("e1", "deterministic simulation: seeded programs x worlds x histories against the real pie crate; outputs and resource contents of every returning session vs a from-scratch reference interpreter",
          "Seeded search over class-W task programs (dynamic require/read/write structure, all checker kinds, five task type families), initial worlds and histories of external changes and top-down sessions; after every returning session the outputs and the world are compared with a from-scratch build of the current state; validation of every reused task is checked through serial-numbered stamps. Evidence over sampled scenarios.", E1_NOTE, "5/C01"),
  "C02": ("e1", "deterministic simulation: every execution justified from the checker-side log (serial-numbered stamps), creation-order validation, idempotent repeat, subset-of-clean for exact checkers",
          "Same scenario space as C01; per session: at most one execution per task, every re-execution preceded by an inconsistent verdict on a dependency of the task's latest execution, dependencies validated in creation order with early stop, repeat sessions execute nothing, exact-checker programs execute a subset of the from-scratch build.", E1_NOTE, "5/C02"),
  "C03": ("e1", "deterministic simulation: completely reported bottom-up builds followed by probing every known task, vs from-scratch reference",
          "Seeded histories of change batches reported completely to bottom-up builds (pure bottom-up, mixed with all-roots and with arbitrary top-down sessions, and sessions that require tasks top-down before the build, drop an unused build or run a second build inside one session, and long-lived sessions in which resources change while the session is open and the batch is reported to a further build of that session: there only the end state is claimed); afterwards requiring every known task must execute nothing and return from-scratch outputs; every inconsistent verdict seen during the build must lead to an execution; cached reuse during the build only when nothing scheduled is reachable.", E1_NOTE, "5/C03"),
  "C04": ("e1", "deterministic simulation: bottom-up executions justified by inconsistent verdicts (checker-side log), at most once, dependency order",
          "Same histories as C03 (plus crash-injecting mixes, in which the rules apply to every task that was not itself left aborted); every execution of a previously completed task in a bottom-up build must follow an inconsistent/erroneous verdict on one of its own recorded dependencies; at most one execution per task; no task executes while a scheduled task it transitively requires still waits.", E1_NOTE, "5/C04"),
  "C10": ("e2", "deterministic simulation: seeded operation histories over the real DAG vs reference graph, invariants after every op",
          "Seeded search over DAG operation histories (incl. operations on removed nodes, re-insertions, cycle-closing edges) with rank-bijection / ascending-edge / exact-cycle-verdict / rollback invariants evaluated after every operation against a DFS reference. Evidence over the sampled histories, not proof.",
          "Trusts the naive reference graph; bounded to <= 12 live nodes and <= 120 operations per history (configurations wide: <= 30 nodes, <= 240 operations; marathon: <= 14 nodes, <= 6000 operations; chain: <= 70 nodes, one insertion moves a chain of 34..60 nodes); hash iteration order controlled through the guarded seeded-hasher seam.", "5/C10"),
  "C11": ("e2", "deterministic simulation: seeded operation histories over the real DAG, every public query vs reference graph after every op",
          "Same histories as C10; after every operation every public query (direct/transitive edges, ordered incoming/outgoing adjacency with data, both descendant iterators, topo_cmp, removal results) is compared for all ordered pairs of live and dead handles with the reference graph. Evidence over the sampled histories.",
          "Trusts the naive reference graph; bounded to <= 12 live nodes and <= 120 operations per history (configurations wide, marathon, chain as for C10).", "5/C11"),
  "C16": ("e1", "deterministic simulation with a seeded-hasher seam: each history replayed under other hash seeds, after unrelated instances, in a fresh thread and with OS-random seeds; complete event logs compared",
          "Every scenario of the top-down and bottom-up mixes is replayed under perturbations that must not matter (hash seed, unrelated instances before, fresh thread, OS-random seeds); the complete unified event log (task-side, checker-side, resource-side and tracker events with stamps) must be identical.", E1_NOTE, "5/C16"),
  "C17": ("e1", "deterministic simulation: full-fidelity recording tracker cross-checked against task-side and checker-side logs; composite children compared; EventTracker and helpers vs reference scan",
          "In every scenario the tracker is Composite(Rec, Composite(EventTracker, Rec)); the two recorders must receive identical streams, the stream must be stack-nested (also under injected checker errors), executions / check verdicts / require outputs must match the task-side and checker-side logs, and EventTracker contents, indices and every helper must agree with a reference scan.", E1_NOTE, "5/C17"),
  "C18": ("e1", "deterministic simulation with fault injection: seeded checker errors at validation time (k-th check of a session, or all checks of a resource), top-down and bottom-up",
          "Class-W scenarios with injected checker errors; the owner of the failing dependency must be re-executed or scheduled and never reused, each error must appear exactly once and in order in Session::dependency_check_errors, the build must not abort, and results must still equal the from-scratch build.", E1_NOTE, "5/C18"),
  "C19": ("e1", "deterministic simulation with crash injection: panics at arbitrary ticks (task ops, write closures, checker calls) and diagnosed violations, instance kept and used again; later sessions vs from-scratch reference",
          "Class-W/X/V scenarios with injected crashes at seeded ticks inside sessions and with diagnosed violations; the instance is reused, in new sessions and (configurations *-samesession) in the very session whose build aborted, the abort being caught by the caller: every later top-down session must return from-scratch results, abort only for an existing violation or with a listed stale-edge signature, and never with an internal error.", E1_NOTE, "5/C19"),
  "C20": ("e1", "deterministic simulation: role-inverting program class V and well-formed class W; every diagnostic abort judged against a from-scratch build of all known tasks and against the recorded dependencies (stale-edge analysis)",
          "Class-W histories must never abort; class-V histories (well-formed in every state, roles invert across states) may abort only with a stale-edge signature that is listed as a known finding; unexplained aborts, internal errors and ordering failures are violations.", E1_NOTE, "5/C20"),
  "C05": ("e1", "deterministic simulation: injected hidden reads / writes (class X) with online monitors on the ledger of latest executions",
          "Class-X scenarios (one injected read or write without the required task dependency) in top-down and bottom-up histories; a read or write that returns while the records contain a reader without a require path to the writer is a missed detection; aborts for writes through the context must precede modification.", E1_NOTE, "5/C05"),
  "C06": ("e1", "deterministic simulation: injected second writers (class X) and repeatedly re-executed writers (class W, also after crashes) with online monitors",
          "A write that returns while another task is the recorded writer is a missed detection; a returning build leaves at most one writer per resource; a re-executed writer is never reported, however it is reached.", E1_NOTE, "5/C06"),
  "C07": ("e1", "deterministic simulation: injected back-requires (class X), execution-stack monitor, depth and execution-count guards",
          "A require of a task that is still executing must not return and must be diagnosed as a cyclic dependency before any task is entered twice; recursion is bounded by guards that must never fire.", E1_NOTE, "5/C07"),
  "C08": ("e1", "deterministic simulation + guarded store dump: dump compared with the ledger of latest executions after every returning session; serial-numbered stamps identify the execution that created a dependency",
          "After every returning session the dumped dependency store must equal the ledger (targets, kinds, checkers, stamps, order, outputs); no check may be made against a stamp of an earlier execution. Two incompleteness findings for several dependencies on one target are listed.", E1_NOTE + " Uses the read-only store-dump hook.", "5/C08"),
  "C09": ("e1", "deterministic simulation: instrumented checker families (exact, parity, exists, version, threshold, always) and delegating output checkers; stamp route / timing and verdict use checked from the checker-side log",
          "Checker families include checkers whose stamp type is zero-sized (everything the verdict needs is in the checker; the model knows their verdict even when pie never asks). Stamps must be taken through the documented route at the documented time (reader handed to the task, after the write function, from the returned output); every verdict of a checker decides re-execution exactly; coarse checkers ignore what they must ignore.", E1_NOTE, "5/C09"),
  "C13": ("e3", "seeded path-state histories on the real filesystem with explicit modification times and faults between write and stamp",
          "Seeded histories of one path through absent / file / directory states with explicit mtimes; the three stamp routes of the three checkers must agree, remembered stamps must check inconsistent exactly when the documented aspect differs, readers stay fresh, writes create / truncate / refuse directories. Evidence over sampled histories on this machine's filesystem.",
          "Real kernel filesystem (tmpfs or temp dir); the clock is removed by setting every mtime explicitly; directory iteration order is the kernel's.", "5/C13"),
  "C14": ("e4", "seeded operation histories over the map resource and typed resource state in one Pie vs a map-of-maps model",
          "After every operation (including a task whose write function panics before / after storing, or that panics after the write, with the Pie used further) the returned value and the complete observable state of every resource type must equal the model; equality-checker verdicts for remembered stamps must match; three stamp routes agree.",
          "Trusts the map-of-maps model; three typed key types, the trait-object keyed maps MapKeyObjToObj / MapKeyToObj with five inner key types and four value types (two field-less each), two further resource types, three state types.", "5/C14"),
  "C15": ("e1", "deterministic simulation over type families with identical representation, hash and Debug text (incl. Box/Rc wrappers of one task type) + direct trait-object equality probes",
          "Programs mix seven task families and two resource families with coinciding ids; equal keys must share one node and one execution, different types must never share an output, a dependency or a node (from-scratch outputs, store dump), and trait-object equality must agree with (type, value) for all key pairs.", E1_NOTE, "5/C15"),
}

NOT_APPLICABLE = {
  "C12": "Pure function of a pair of outputs: no schedule, history, fault, clock or I/O for a simulator to control; deterministic simulation does not apply (DESIGN.md section 5/C12). The five checkers are exercised as a by-product of the build simulation (C09) but not claimed.",
}

PENDING = "check not built yet in this commit (work in progress; see DESIGN.md section 10 for the order of work)"

def main():
    props = [json.loads(l)["id"] for l in open(os.path.join(ROOT, "properties.jsonl"))]
    checks = []
    for pid in props:
        if pid not in CHECKS:
            continue
        eng, tech, text, note, ref = CHECKS[pid]
        checks.append({
            "property_id": pid,
            "quick_cmd": f"./check {pid} quick",
            "thorough_cmd": f"./check {pid} thorough",
            "evidence_file": f"/verif/evidence/{pid}.json",
            "replay_cmd_template": "./check --replay {path}",
            "engine": E[eng],
            "level_claimed": {"category": "exploration", "text": text, "design_ref": f"DESIGN.md section {ref}"},
            "level_note": note,
            "technique": tech,
        })
    na = []
    for pid in props:
        if pid in CHECKS:
            continue
        na.append({"property_id": pid, "reason": NOT_APPLICABLE.get(pid, PENDING)})
    manifest = {
        "version": 1,
        "setup_cmd": "cd /verif/sim && CARGO_NET_OFFLINE=true cargo build --release --offline",
        "hooks": {
            "guard": "cargo feature gohla_pie_verif (crates pie and pie_graph)",
            "enable": "the simulator crate /verif/sim depends on /repo/pie and /repo/graph by path with features gohla_pie_verif,file_hash_checker; every ./check invocation rebuilds it against /repo's working tree",
            "baseline_off_cmd": "cd /repo && cargo test --workspace --no-fail-fast --offline",
            "source_commits": hook_commits(),
            "add_only": True,
        },
        "engines": [
            {"name": "e1-build", "path": "/verif/sim/src/e1", "serves_properties": [p for p in props if p in CHECKS and CHECKS[p][0] == "e1"], "kind_free_text": "deterministic simulation of build histories (generated task programs, simulated resource world, external changes, faults) against the real pie crate with reference models"},
            {"name": "e2-dag", "path": "/verif/sim/src/e2_dag.rs", "serves_properties": [p for p in props if p in CHECKS and CHECKS[p][0] == "e2"], "kind_free_text": "deterministic simulation of DAG operation histories against the real pie_graph crate with a reference graph"},
            {"name": "e3-fs", "path": "/verif/sim/src/e3_fs.rs", "serves_properties": [p for p in props if p in CHECKS and CHECKS[p][0] == "e3"], "kind_free_text": "seeded path-state histories on the real filesystem with explicit modification times"},
            {"name": "e4-state", "path": "/verif/sim/src/e4_state.rs", "serves_properties": [p for p in props if p in CHECKS and CHECKS[p][0] == "e4"], "kind_free_text": "seeded operation histories over the map resource and typed resource state vs a map-of-maps model"},
        ],
        "checks": checks,
        "not_applicable": na,
        "notes": "All checks: exit 0 = held on everything explored, exit 1 + VIOLATION line = violation with minimised replay file under /verif/replays, exit 2 = harness error. VERIF_SEED selects the batch (default 1). Known findings: /verif/KNOWN_FINDINGS.txt.",
    }
    json.dump(manifest, open(os.path.join(ROOT, "MANIFEST.json"), "w"), indent=1)
    print("wrote MANIFEST.json:", len(checks), "checks,", len(na), "not claimed")

if __name__ == "__main__":
    main()
