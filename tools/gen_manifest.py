#!/usr/bin/env python3
"""Generates /verif/MANIFEST.json from the table below (keeps it valid against the schema)."""
import json, subprocess, os

ROOT = os.path.dirname(os.path.dirname(os.path.abspath(__file__)))

def hook_commits():
    try:
        out = subprocess.check_output(["git", "-C", "/repo", "log", "--format=%H %s"], text=True)
        return [l.split()[0] for l in out.splitlines() if l.split(" ", 1)[1].startswith("verif hook:")]
    except Exception:
        return []

E = {
  "e1": "e1-build", "e2": "e2-dag", "e3": "e3-fs", "e4": "e4-state",
}

# id -> (engine, technique, level text, level note, design ref)
CHECKS = {
  "C10": ("e2", "deterministic simulation: seeded operation histories over the real DAG vs reference graph, invariants after every op",
          "Seeded search over DAG operation histories (incl. operations on removed nodes, re-insertions, cycle-closing edges) with rank-bijection / ascending-edge / exact-cycle-verdict / rollback invariants evaluated after every operation against a DFS reference. Evidence over the sampled histories, not proof.",
          "Trusts the naive reference graph; bounded to <= 12 live nodes and <= 120 operations per history; hash iteration order controlled through the guarded seeded-hasher seam.", "5/C10"),
  "C11": ("e2", "deterministic simulation: seeded operation histories over the real DAG, every public query vs reference graph after every op",
          "Same histories as C10; after every operation every public query (direct/transitive edges, ordered incoming/outgoing adjacency with data, both descendant iterators, topo_cmp, removal results) is compared for all ordered pairs of live and dead handles with the reference graph. Evidence over the sampled histories.",
          "Trusts the naive reference graph; bounded to <= 12 live nodes and <= 120 operations per history.", "5/C11"),
}

NOT_APPLICABLE = {
  "C12": "Pure function of a pair of outputs: no schedule, history, fault, clock or I/O for a simulator to control; deterministic simulation does not apply (DESIGN.md section 5/C12). The five checkers are exercised as a by-product of the build simulation (C09) but not claimed.",
}

PENDING = "check not built yet in this commit (work in progress; see DESIGN.md section 10 for the order of work)"

def main():
    props = [json.loads(l)["id"] for l in open(os.path.join(ROOT, "properties.jsonl"))]
    checks = []
    for pid in props:
        if pid not in CHECKS:
            continue
        eng, tech, text, note, ref = CHECKS[pid]
        checks.append({
            "property_id": pid,
            "quick_cmd": f"./check {pid} quick",
            "thorough_cmd": f"./check {pid} thorough",
            "evidence_file": f"/verif/evidence/{pid}.json",
            "replay_cmd_template": "./check --replay {path}",
            "engine": E[eng],
            "level_claimed": {"category": "exploration", "text": text, "design_ref": f"DESIGN.md section {ref}"},
            "level_note": note,
            "technique": tech,
        })
    na = []
    for pid in props:
        if pid in CHECKS:
            continue
        na.append({"property_id": pid, "reason": NOT_APPLICABLE.get(pid, PENDING)})
    manifest = {
        "version": 1,
        "setup_cmd": "cd /verif/sim && CARGO_NET_OFFLINE=true cargo build --release --offline",
        "hooks": {
            "guard": "cargo feature gohla_pie_verif (crates pie and pie_graph)",
            "enable": "the simulator crate /verif/sim depends on /repo/pie and /repo/graph by path with features gohla_pie_verif,file_hash_checker; every ./check invocation rebuilds it against /repo's working tree",
            "baseline_off_cmd": "cd /repo && cargo test --workspace --no-fail-fast --offline",
            "source_commits": hook_commits(),
            "add_only": True,
        },
        "engines": [
            {"name": "e1-build", "path": "/verif/sim/src/e1", "serves_properties": [p for p in props if p in CHECKS and CHECKS[p][0] == "e1"], "kind_free_text": "deterministic simulation of build histories (generated task programs, simulated resource world, external changes, faults) against the real pie crate with reference models"},
            {"name": "e2-dag", "path": "/verif/sim/src/e2_dag.rs", "serves_properties": [p for p in props if p in CHECKS and CHECKS[p][0] == "e2"], "kind_free_text": "deterministic simulation of DAG operation histories against the real pie_graph crate with a reference graph"},
            {"name": "e3-fs", "path": "/verif/sim/src/e3_fs.rs", "serves_properties": [p for p in props if p in CHECKS and CHECKS[p][0] == "e3"], "kind_free_text": "seeded path-state histories on the real filesystem with explicit modification times"},
            {"name": "e4-state", "path": "/verif/sim/src/e4_state.rs", "serves_properties": [p for p in props if p in CHECKS and CHECKS[p][0] == "e4"], "kind_free_text": "seeded operation histories over the map resource and typed resource state vs a map-of-maps model"},
        ],
        "checks": checks,
        "not_applicable": na,
        "notes": "All checks: exit 0 = held on everything explored, exit 1 + VIOLATION line = violation with minimised replay file under /verif/replays, exit 2 = harness error. VERIF_SEED selects the batch (default 1). Known findings: /verif/KNOWN_FINDINGS.txt.",
    }
    json.dump(manifest, open(os.path.join(ROOT, "MANIFEST.json"), "w"), indent=1)
    print("wrote MANIFEST.json:", len(checks), "checks,", len(na), "not claimed")

if __name__ == "__main__":
    main()
