#!/bin/sh
# Re-runs every registered quick check on the unchanged tree so that the committed evidence files come from clean runs.
cd /verif || exit 2
git -C /repo diff --quiet || { echo "/repo has uncommitted changes"; exit 2; }
rc=0
for p in $(./sim/target/release/sim list); do
  out=$(./check $p quick 2>&1); code=$?
  echo "$p exit=$code $(echo "$out" | grep -c '^KNOWN-FINDING') known $(echo "$out" | tail -1 | sed 's/.*runs=\([0-9]*\).*nontrivial=\([0-9]*\).*wall_s=\([0-9.]*\).*/runs=\1 nontrivial=\2 wall=\3/')"
  echo "$out" | grep "^NOTE: reach probes"
  [ $code = 0 ] || { rc=1; echo "$out" | grep -E "^violation|^  |VIOLATION|HARNESS" | head -4; }
done
python3-vt - <<'PY'
import json, jsonschema, glob
sch = json.load(open('/root/.vp/EVIDENCE.schema.json'))
for f in sorted(glob.glob('/verif/evidence/*.json')):
    jsonschema.validate(json.load(open(f)), sch)
jsonschema.validate(json.load(open('/verif/MANIFEST.json')), json.load(open('/root/.vp/MANIFEST.schema.json')))
print("evidence and manifest valid")
PY
exit $rc
