#!/usr/bin/env python3
"""Development aid (no registered command uses it): runs seeded changes against the quick check of their property in a
SCRATCH copy (git worktree of /repo + copy of /verif with the simulator's path dependencies rewritten), so that /repo is
never touched and background runs against /repo are not disturbed. The confirming run of record is tools/run_seeds.py,
which applies each patch to /repo itself as the brief prescribes.

usage: scratch_seeds.py [--slot N] [--tier quick] [--update-meta] [--checks C01,C02] <seed-id|patch.diff> ...
"""
import json, os, re, subprocess, sys, shutil
args = sys.argv[1:]
slot = "0"; tier = "quick"; update = False; checks_override = None; ids = []
while args:
    a = args.pop(0)
    if a == "--slot": slot = args.pop(0)
    elif a == "--tier": tier = args.pop(0)
    elif a == "--update-meta": update = True
    elif a == "--checks": checks_override = args.pop(0).split(",")
    else: ids.append(a)
base = f"/tmp/sv{slot}"; repo = f"{base}/repo"; verif = f"{base}/verif"
EXTRA = {"C16-s2": ["C13"], "C09-s2": ["C08"], "C04-s10": ["C11"], "C20-s8": ["C11"], "C07-s7": ["C10", "C11"], "C20-s7": ["C03"]}
KEEP_META = {"C07-s8", "C10-s8", "C16-s10", "C02-s10", "C18-s9"}
def sh(cmd, **kw): return subprocess.run(cmd, shell=True, capture_output=True, text=True, **kw)
os.makedirs(base, exist_ok=True)
if not os.path.isdir(repo):
    r = sh(f"git -C /repo worktree add --detach {repo} HEAD"); assert r.returncode == 0, r.stderr
else:
    sh(f"git -C {repo} checkout -q --detach $(git -C /repo rev-parse HEAD) && git -C {repo} checkout -q -- . && git -C {repo} clean -fdq -- pie graph")
# fresh copy of /verif's working tree (without build output), keep the scratch target dir for incremental builds
sh(f"mkdir -p {verif} && rsync -a --delete --exclude sim/target --exclude .git --exclude replays /verif/ {verif}/")
ct = open(f"{verif}/sim/Cargo.toml").read().replace('"/repo/pie"', f'"{repo}/pie"').replace('"/repo/graph"', f'"{repo}/graph"')
open(f"{verif}/sim/Cargo.toml", "w").write(ct)
missed = []
for sid in ids:
    if os.path.isfile(sid): patch = os.path.realpath(sid); prop = None; name = os.path.basename(os.path.dirname(patch)) or sid
    else: patch = f"/verif/seeded/{sid}/patch.diff"; prop = json.load(open(f"/verif/seeded/{sid}/meta.json"))["property"]; name = sid
    r = sh(f"git -C {repo} apply {patch}")
    if r.returncode != 0: print(name, "PATCH DOES NOT APPLY", r.stderr.strip()[:200]); continue
    checks = checks_override or ([prop] + EXTRA.get(sid, []))
    det = []; runs = []
    for p in checks:
        o = sh(f"cd {verif} && ./check {p} {tier}")
        line = next((l for l in o.stdout.splitlines() if l.startswith("violation:")), "")
        m = re.search(r"oracle=(\S+)", line)
        runs.append({"cmd": f"./check {p} {tier}", "exit": o.returncode, "oracle": m.group(1) if m else None})
        if o.returncode == 1: det.append(f"{p}:{m.group(1) if m else '?'}")
        elif o.returncode != 0: print(name, p, "HARNESS", o.stdout[-400:], o.stderr[-400:])
    sh(f"git -C {repo} checkout -q -- . && git -C {repo} clean -fdq -- pie graph")
    print(name, det or "MISSED", flush=True)
    if not det: missed.append(name)
    if update and not os.path.isfile(sid) and sid not in KEEP_META:
        mp = f"/verif/seeded/{sid}/meta.json"; meta = json.load(open(mp))
        meta["checks_run"] = runs; meta["detected_by"] = det
        json.dump(meta, open(mp, "w"), indent=1)
print("missed:", missed)
