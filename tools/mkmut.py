#!/usr/bin/env python3
"""mkmut.py <name> <file-relative-to-/repo> <<< 'OLD\n====\nNEW'  -> writes /verif/selftest/patches/<name>.diff (repo left unchanged)."""
import sys, subprocess
name, path = sys.argv[1], sys.argv[2]
full = "/repo/" + path
s = open(full).read()
for part in sys.stdin.read().split("\n####\n"):
    old, new = part.split("\n====\n")
    new = new.rstrip("\n")
    old = old.strip("\n")
    assert s.count(old) == 1, f"{name}: old text occurs {s.count(old)} times: {old[:60]}"
    s = s.replace(old, new)
open(full, "w").write(s)
diff = subprocess.check_output(["git", "-C", "/repo", "diff"], text=True)
open(f"/verif/selftest/patches/{name}.diff", "w").write(diff)
subprocess.check_call(["git", "-C", "/repo", "checkout", "--", "."])
print("wrote", name)
