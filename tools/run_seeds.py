#!/usr/bin/env python3
"""Runs every seeded change under /verif/seeded against the quick check of its property (and optional extra checks)
and records the outcome in seeded/<id>/meta.json. Applies each patch to /repo and always reverts it."""
import json, os, subprocess, sys, re
ROOT = "/verif"
only = sys.argv[1:]
EXTRA = {"C16-s2": ["C13"], "C09-s2": ["C08"], "C04-s10": ["C11"], "C20-s8": ["C11"], "C07-s7": ["C10", "C11"], "C20-s7": ["C03"]}
# Seeds that are out of reach of the quick tier by construction (recorded in their meta.json; not overwritten here).
KEEP_META = {"C07-s8", "C10-s8", "C16-s10", "C02-s10", "C18-s9"}
def sh(cmd, **kw): return subprocess.run(cmd, shell=True, capture_output=True, text=True, **kw)
assert sh("git -C /repo diff --quiet").returncode == 0, "/repo dirty"
results = {}
try:
    for sid in sorted(os.listdir(f"{ROOT}/seeded")):
        if only and sid not in only: continue
        d = f"{ROOT}/seeded/{sid}"
        meta = json.load(open(f"{d}/meta.json"))
        prop = meta["property"]
        r = sh(f"git -C /repo apply {d}/patch.diff")
        if r.returncode != 0: print(sid, "patch does not apply", r.stderr); continue
        checks = [prop] + EXTRA.get(sid, [])
        meta["checks_run"] = []; meta["detected_by"] = []
        for p in checks:
            o = sh(f"cd {ROOT} && ./check {p} quick")
            line = next((l for l in o.stdout.splitlines() if l.startswith("violation:")), "")
            oracle = re.search(r"oracle=(\S+)", line)
            meta["checks_run"].append({"cmd": f"./check {p} quick", "exit": o.returncode, "oracle": oracle.group(1) if oracle else None})
            if o.returncode == 1: meta["detected_by"].append(f"{p}:{oracle.group(1) if oracle else '?'}")
        sh("git -C /repo checkout -- . && git -C /repo clean -fdq -- pie graph")
        if sid not in KEEP_META: json.dump(meta, open(f"{d}/meta.json", "w"), indent=1)
        results[sid] = meta["detected_by"]
        print(sid, meta["detected_by"] or "MISSED", flush=True)
finally:
    sh("git -C /repo checkout -- . && git -C /repo clean -fdq -- pie graph")
    sh(f"cd {ROOT}/sim && cargo build --release --offline")
    sh(f"git -C {ROOT} checkout -- evidence")
missed = [k for k, v in results.items() if not v]
print("missed:", missed)
