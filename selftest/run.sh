#!/bin/sh
# Sensitivity self-test (development aid, not a registered check): applies each patch of selftest/patches to /repo,
# runs the quick check of the property it is meant to break, expects exit 1, and reverts. Usage: selftest/run.sh
cd /verif || exit 2
while read -r patch props; do
  [ -z "$patch" ] && continue
  tools/mutant.sh selftest/patches/$patch $props 2>&1 | grep "exit=" | cut -c1-200
done <<'LIST'
m01-no-early-return.diff C02
m02-skip-write-deps.diff C01 C09
m03-queue-pop-front.diff C04
m04-bu-no-requirer-schedule.diff C03
m06-reset-keeps-edges.diff C08 C02
m08-composite-double.diff C17
m09-children-hashset.diff C16 C11 C02
m11-td-error-swallowed.diff C18
m12-bu-schedule-always.diff C04
m13-bu-require-no-now.diff C03
m14-td-reverse-order.diff C02
m15-always-reexecute.diff C02
m20-typemap-by-value.diff C14
m21-stamp-before-write.diff C09 C02
m22-swap-transitive-args.diff C05 C20
m23-no-overlap-check.diff C06
m24-ignore-cycle.diff C07
m25-hash-no-rewind.diff C13 C09
m26-reorder-off-by-one.diff C10
m27-remove-edge-keeps-parent.diff C11 C10
LIST
